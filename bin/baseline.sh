#!/bin/bash
# Runs the repository's own test-suite (guard off: the simulator needs no source hook) in a scratch build dir.
set -e
D=$(mktemp -d /var/tmp/cocls_base.XXXXXX)
trap 'rm -rf "$D"' EXIT
cmake -G Ninja -S /repo -B "$D" -DCMAKE_BUILD_TYPE=Debug >/dev/null
cmake --build "$D" -j16 >/dev/null
# the suite has wall-clock sensitive tests (sleep windows): a failed test is retried before it counts
ctest --test-dir "$D" -j8 --timeout 900 --repeat until-pass:3 2>&1 | tail -25
