// dsim.h — scenario-facing API of the deterministic simulator (see DESIGN.md §2).
//
// Everything declared here is implemented in dsim_rt.cpp, which is compiled WITHOUT
// -fsanitize=thread: calls into it are neither scheduling points (unless stated) nor
// subjects of the race detector, and never draw from the decision PRNG (unless stated).
#pragma once
#include <cstddef>
#include <cstdint>

namespace dsim {

// ---------------------------------------------------------------- plan stream
// All scenario-shape choices come from here. 0 is always the "simplest" value: the
// generic plan shrinker lowers values and truncates the stream (missing draws read 0).
unsigned choose(unsigned n);            // uniform in [0,n)
unsigned choose_w(unsigned n, unsigned zero_weight_percent); // 0 with given probability, else uniform [1,n)
inline bool flip() { return choose(2) != 0; }
void plan_note(const char *fmt, ...) __attribute__((format(printf, 1, 2))); // human-readable plan description

// ---------------------------------------------------------------- verdicts
// oracle: stable identifier of the failed oracle ("C07.overlap"); becomes the violation class.
[[noreturn]] void fail(const char *oracle, const char *fmt, ...) __attribute__((format(printf, 2, 3)));
#define DSIM_CHECK(cond, oracle, ...) do { if (!(cond)) ::dsim::fail(oracle, __VA_ARGS__); } while (0)
// like fail(), but the run continues and the failure is reported when it ends; the end-of-run leak check is skipped.
// Used for recorded known findings so that the rest of the run is still judged (a later fail() takes precedence).
void soft_fail(const char *oracle, const char *fmt, ...) __attribute__((format(printf, 2, 3)));
// scenario found that the drawn plan is not executable under the API contract: run counts as skipped
[[noreturn]] void skip(const char *why);

// ---------------------------------------------------------------- events / bookkeeping
void event(const char *name, long a = 0, long b = 0);   // enters the event log + fingerprint
constexpr int NCELLS = 8192;
long cell_get(int i);
void cell_set(int i, long v);
long cell_add(int i, long d);           // returns new value
long cell_xchg(int i, long v);          // returns old value
// schedule constraint: caller is not runnable until cell i >= atleast. Adds NO happens-before.
void wait_cell(int i, long atleast = 1);
// modelled harness synchronisation (a barrier / channel a user program would have): release/acquire
void hb_release(int channel);
void hb_acquire(int channel);
void yield();                           // explicit scheduling point
int  self();                            // simulated thread id (0 = scenario main thread), -1 outside
long now_ns();                          // virtual time since run start
long step();                            // global scheduling-point counter (history stamp)
void advance_time(long ns);             // scenario-driven clock jump
unsigned long thread_blocks();          // how often the calling thread parked in a blocking primitive (mutex, condvar, futex, join, sleep)

// ---------------------------------------------------------------- heap accounting
unsigned long live_blocks();
unsigned long live_bytes();
unsigned long total_allocs();           // allocations since run start (all threads)
unsigned long thread_allocs();          // allocations by the calling thread since run start
// allocations by the calling thread whose shadow call stack contains no frame matching the
// exclusion list set by config (used by C20 to separate ready-queue deque growth)
unsigned long thread_allocs_excluding();
void exclude_alloc_fn(const void *fn_addr_lo, const void *fn_addr_hi);
void set_heap_fill(int byte);           // content of fresh heap blocks for this run (default 0xCD)

// ---------------------------------------------------------------- configuration (call first thing in scenario)
struct Config {
    bool race_is_violation = true;      // a happens-before race is a violation in every scenario (C03's harness is the one built around it; the others hand objects over with vs::cell_*_hb)
    bool leak_check = true;             // live blocks after all threads ended = violation
    bool stalls = false;                // enable virtual-time stall / clock-advance faults
    bool allow_deadlock = false;        // scenario handles deadlock itself (never used for claims)
    unsigned max_steps = 400000;        // hard step cap (harness limit)
    unsigned fair_after = 60000;        // after this many steps: fair round-robin, no faults
    unsigned liveness_budget = 200000;  // steps allowed in the fair phase
};
Config &config();
int tier();                             // 0 quick, 1 thorough
bool faults_enabled();                  // false in the fault-free half of the runs

// classifier called (on the detecting thread) when a deadlock / no-progress is found; may call fail()
void on_deadlock(void (*fn)());
// called by the driver thread after every simulated thread has finished (end-of-run oracle)
void at_end(void (*fn)());

// Value wrapper for harness bookkeeping that must be invisible to the race detector.
template <typename T> struct Untracked {
    T v{};
    __attribute__((no_sanitize_thread, noinline)) T get() const { return v; }
    __attribute__((no_sanitize_thread, noinline)) void set(T x) { v = x; }
};

} // namespace dsim

// The scenario of this binary. Runs on simulated thread 0.
void dsim_scenario();
extern const char *const dsim_property; // "C07"
