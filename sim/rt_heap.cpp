// rt_heap.cpp — deterministic arena heap with quarantine, red zones, accounting (DESIGN §4),
// and the replacement of the global operator new/delete.
#include "rt_core.h"
#include <new>
#include <stdio.h>
#include <sys/mman.h>

namespace rt {
bool stack_contains_pc_range(u32 node, uintptr_t lo, uintptr_t hi);

enum { BL_LIVE = 1, BL_FREED = 2 };
struct Block { uintptr_t user; size_t size; u32 state; u32 alloc_stack, free_stack; int alloc_tid, free_tid; };
static MVec<Block> blocks;
static uintptr_t bump;
static unsigned long live_n, live_b, total_n;
constexpr size_t RZ = 16;
static struct { uintptr_t lo, hi; } excl[64]; static int n_excl;

void heap_init() {
    void *p = mmap((void *)HEAP_BASE, HEAP_SIZE, PROT_READ | PROT_WRITE, MAP_PRIVATE | MAP_ANONYMOUS | MAP_FIXED_NOREPLACE | MAP_NORESERVE, -1, 0);
    if (p != (void *)HEAP_BASE) { perror("mmap heap arena"); abort(); }
    bump = HEAP_BASE;
}
void heap_reset() {
    // give the pages back so that a run never sees data of an earlier run
    if (bump > HEAP_BASE) madvise((void *)HEAP_BASE, ((bump - HEAP_BASE) + 4095) & ~4095ul, MADV_DONTNEED);
    bump = HEAP_BASE; blocks.clear(); live_n = live_b = total_n = 0;
}
bool heap_owns(const void *p) { uintptr_t x = (uintptr_t)p; return x >= HEAP_BASE && x < HEAP_BASE + HEAP_SIZE; }
bool stack_in_exclusion(SimThread *t) {
    for (int i = 0; i < n_excl; i++) if (stack_contains_pc_range(t->stack_node, excl[i].lo, excl[i].hi)) return true;
    return false;
}
void *heap_alloc(size_t n, size_t al) {
    SimThread *t = tl_self;
    if (al < 16) al = 16;
    uintptr_t u = (bump + RZ + al - 1) & ~(uintptr_t)(al - 1);
    size_t rn = (n + 15) & ~(size_t)15;
    if (u + rn + RZ > HEAP_BASE + HEAP_SIZE) harness_limit("simulated heap arena exhausted");
    memset((void *)(u - RZ), 0xFA, RZ);
    memset((void *)u, G.heap_fill, rn);
    memset((void *)(u + rn), 0xFB, RZ);
    if (rn > n) memset((void *)(u + n), 0xFB, rn - n);
    bump = u + rn + RZ;
    Block b; b.user = u; b.size = n; b.state = BL_LIVE; b.alloc_stack = t ? t->stack_node : 0; b.free_stack = 0; b.alloc_tid = t ? t->id : -1; b.free_tid = -1;
    tl_in_rt++; blocks.push(b); tl_in_rt--;
    live_n++; live_b += n; total_n++;
    if (t) { t->allocs++; if (!n_excl || !stack_in_exclusion(t)) t->allocs_excl++; }
    return (void *)u;
}
static Block *find_block(uintptr_t a) {
    // blocks are sorted by address (bump allocator). Find last block with user-RZ <= a
    size_t lo = 0, hi = blocks.n;
    while (lo < hi) { size_t m = (lo + hi) / 2; if (blocks[m].user - RZ <= a) lo = m + 1; else hi = m; }
    if (!lo) return nullptr;
    return &blocks[lo - 1];
}
static void check_redzones(Block *b, const char *when) {
    const u8 *p = (const u8 *)(b->user - RZ);
    for (size_t i = 0; i < RZ; i++) if (p[i] != 0xFA) violation("heap.underflow", "red zone before block %p (%zu bytes) damaged, found at %s", (void *)b->user, b->size, when);
    size_t rn = (b->size + 15) & ~(size_t)15;
    p = (const u8 *)(b->user + b->size);
    for (size_t i = 0; i < rn - b->size + RZ; i++) if (p[i] != 0xFB) violation("heap.overflow", "red zone after block %p (%zu bytes) damaged, found at %s", (void *)b->user, b->size, when);
}
void heap_free(void *p) {
    uintptr_t a = (uintptr_t)p;
    Block *b = find_block(a);
    static char s1[1024], s2[1024];
    if (!b || b->user != a) violation("heap.bad_free", "delete of %p which is not the start of a live block", p);
    if (b->state == BL_FREED) {
        format_stack(s1, sizeof s1, b->free_stack, 0); format_stack(s2, sizeof s2, b->alloc_stack, 0);
        violation("heap.double_free", "block %p (%zu bytes) freed twice; first free by T%d [%s]; allocated by T%d [%s]", p, b->size, b->free_tid, s1, b->alloc_tid, s2);
    }
    check_redzones(b, "delete");
    SimThread *t = tl_self;
    b->state = BL_FREED; b->free_stack = t ? t->stack_node : 0; b->free_tid = t ? t->id : -1;
    memset(p, 0xDD, b->size);
    live_n--; live_b -= b->size;
}
void heap_check_access(SimThread *t, uintptr_t a, unsigned sz, bool wr, uintptr_t pc) {
    Block *b = find_block(a);
    static char s0[1024], s1[1024], s2[1024];
    if (!b) return;
    if (a >= b->user && a + sz <= b->user + b->size) {
        if (b->state == BL_FREED) {
            format_stack(s0, sizeof s0, t->stack_node, pc); format_stack(s1, sizeof s1, b->free_stack, 0); format_stack(s2, sizeof s2, b->alloc_stack, 0);
            violation("heap.use_after_free", "T%d %s %u bytes at %p inside freed block %p (%zu bytes) [access %s]; freed by T%d [%s]; allocated by T%d [%s]", t->id, wr ? "writes" : "reads", sz, (void *)a, (void *)b->user, b->size, s0, b->free_tid, s1, b->alloc_tid, s2);
        }
        return;
    }
    size_t rn = (b->size + 15) & ~(size_t)15;
    if (a + sz > b->user - RZ && a < b->user + rn + RZ) {
        format_stack(s0, sizeof s0, t->stack_node, pc);
        violation("heap.out_of_bounds", "T%d %s %u bytes at %p outside block %p (%zu bytes) [access %s]", t->id, wr ? "writes" : "reads", sz, (void *)a, (void *)b->user, b->size, s0);
    }
}
unsigned long heap_live_blocks() { return live_n; }
unsigned long heap_live_bytes() { return live_b; }
unsigned long heap_total_allocs() { return total_n; }
void heap_report_leaks_and_fail() {
    static char s[1024], m[3072]; size_t o = 0; int shown = 0;
    for (size_t i = 0; i < blocks.n && shown < 3; i++) if (blocks[i].state == BL_LIVE) {
        format_stack(s, sizeof s, blocks[i].alloc_stack, 0);
        o += snprintf(m + o, sizeof m - o, "%zu bytes by T%d [%s]; ", blocks[i].size, blocks[i].alloc_tid, s); shown++;
    }
    violation("heap.leak", "%lu block(s), %lu bytes still allocated after every simulated thread ended: %s", live_n, live_b, m);
}
} // namespace rt

namespace dsim {
void set_heap_fill(int byte) { rt::G.heap_fill = byte & 0xff; }
void exclude_alloc_fn(const void *lo, const void *hi) {
    for (int i = 0; i < rt::n_excl; i++) if (rt::excl[i].lo == (uintptr_t)lo) return;
    if (rt::n_excl < 64) { rt::excl[rt::n_excl].lo = (uintptr_t)lo; rt::excl[rt::n_excl].hi = (uintptr_t)hi; rt::n_excl++; }
}
}

// ====================================================================== global operator new / delete
using namespace rt;
static inline bool use_arena() { return tl_self && G.run_active && !tl_in_rt && !G.warmup; }
static void *do_new(size_t n, size_t al) {
    if (use_arena()) return heap_alloc(n, al);
    void *p = al <= 16 ? malloc(n ? n : 1) : aligned_alloc(al, (n + al - 1) / al * al);
    if (!p) abort();
    return p;
}
static void do_delete(void *p) {
    if (!p) return;
    if (heap_owns(p)) { heap_free(p); return; }
    free(p);
}
void *operator new(size_t n) { return do_new(n, 16); }
void *operator new[](size_t n) { return do_new(n, 16); }
void *operator new(size_t n, const std::nothrow_t &) noexcept { return do_new(n, 16); }
void *operator new[](size_t n, const std::nothrow_t &) noexcept { return do_new(n, 16); }
void *operator new(size_t n, std::align_val_t a) { return do_new(n, (size_t)a); }
void *operator new[](size_t n, std::align_val_t a) { return do_new(n, (size_t)a); }
void *operator new(size_t n, std::align_val_t a, const std::nothrow_t &) noexcept { return do_new(n, (size_t)a); }
void *operator new[](size_t n, std::align_val_t a, const std::nothrow_t &) noexcept { return do_new(n, (size_t)a); }
void operator delete(void *p) noexcept { do_delete(p); }
void operator delete[](void *p) noexcept { do_delete(p); }
void operator delete(void *p, size_t) noexcept { do_delete(p); }
void operator delete[](void *p, size_t) noexcept { do_delete(p); }
void operator delete(void *p, std::align_val_t) noexcept { do_delete(p); }
void operator delete[](void *p, std::align_val_t) noexcept { do_delete(p); }
void operator delete(void *p, size_t, std::align_val_t) noexcept { do_delete(p); }
void operator delete[](void *p, size_t, std::align_val_t) noexcept { do_delete(p); }
void operator delete(void *p, const std::nothrow_t &) noexcept { do_delete(p); }
void operator delete[](void *p, const std::nothrow_t &) noexcept { do_delete(p); }
