// rt_sync.cpp — the seams of DESIGN §2.2: TSan-ABI atomics (scheduling point before and after),
// pthread mutex, condition_variable, futex, std::thread, clocks, sleeps, static guards, asserts.
#include "rt_core.h"
#include <chrono>
#include <condition_variable>
#include <errno.h>
#include <exception>
#include <linux/futex.h>
#include <mutex>
#include <stdarg.h>
#include <stdio.h>
#include <sys/syscall.h>
#include <thread>
#include <time.h>
#include <unistd.h>

extern "C" {
long __real_syscall(long n, ...);
int __real_pthread_mutex_lock(pthread_mutex_t *);
int __real_pthread_mutex_trylock(pthread_mutex_t *);
int __real_pthread_mutex_unlock(pthread_mutex_t *);
int __real_pthread_cond_timedwait(pthread_cond_t *, pthread_mutex_t *, const struct timespec *);
int __real_pthread_cond_clockwait(pthread_cond_t *, pthread_mutex_t *, clockid_t, const struct timespec *);
int __real_sched_yield();
int __real_nanosleep(const struct timespec *, struct timespec *);
int __real_clock_nanosleep(clockid_t, int, const struct timespec *, struct timespec *);
int __real___cxa_guard_acquire(long *);
void __real___cxa_guard_release(long *);
void __real___cxa_guard_abort(long *);
void *__real___cxa_allocate_exception(size_t);
void __real___assert_fail(const char *, const char *, unsigned, const char *);
}

namespace rt {
SimThread *spawn(SimThread *parent, void *tstate, void (*entry)());
void set_term(void (*f)()) { std::set_terminate(f); }
constexpr long EPOCH_NS = 1700000000ll * 1000000000ll;

// A program that polls the clock without ever blocking must still see time pass: after 256 reads of an unchanged
// clock it creeps by 50us (deterministic; never triggers when somebody blocks between reads).
static long last_read_now = -1; static unsigned same_reads;
static void clock_read() {
    if (G.now != last_read_now) { last_read_now = G.now; same_reads = 0; return; }
    if (++same_reads >= 256) { G.now += 50000; last_read_now = G.now; same_reads = 0; }
}
static void mark_yield(SimThread *t) {
    t->yielding = true;
    if (!G.replay_dec && G.strategy == 1 /*PCT*/) t->prio = G.prio_low--;
}

// ------------------------------------------------------------------ simulated mutexes / guards
struct MxEnt { uintptr_t key; u32 gen; int owner; VC vc; };
static MxEnt mxtab[1 << 10];
static MxEnt *mx_find(uintptr_t a) {
    u64 h = (a * 0x9E3779B97F4A7C15ull) >> 54;
    for (int i = 0; i < 256; i++) {
        MxEnt &e = mxtab[(h + i) & 1023];
        if (e.gen != G.gen) { e.key = a; e.gen = G.gen; e.owner = -1; e.vc.clear(); return &e; }
        if (e.key == a) return &e;
    }
    harness_limit("mutex table full");
}
bool mutex_is_free(uintptr_t m) { return mx_find(m)->owner < 0; }
bool guard_is_free(uintptr_t g) { return mx_find(g)->owner < 0; }
void sync_reset() { last_read_now = -1; same_reads = 0; }

static void mx_lock(SimThread *t, uintptr_t m) {
    MxEnt *e = mx_find(m);
    if (e->owner == t->id) violation("crash.mutex_relock", "T%d locks a std::mutex it already owns (self-deadlock / UB)", t->id);
    while (e->owner >= 0) { block(t, B_MUTEX, m, 0, false, 0); e = mx_find(m); }
    e->owner = t->id; t->vc.join(e->vc);
    touch_obj(t, m); log_event(t, 20, obj_id(m), 0);
}
static void mx_unlock(SimThread *t, uintptr_t m) {
    MxEnt *e = mx_find(m);
    if (e->owner != t->id) violation("crash.mutex_unlock_not_owner", "T%d unlocks a std::mutex owned by T%d", t->id, e->owner);
    e->owner = -1; e->vc = t->vc; hb_tick(t);
    log_event(t, 21, obj_id(m), 0);
}

// ------------------------------------------------------------------ condvar / futex waiter handling
static void wake_waiters(SimThread *t, BKind k, uintptr_t obj, int n) {
    SimThread *w[MAXT]; int nw = 0;
    for (int i = 0; i < G.nth; i++) { SimThread &x = G.th[i]; if (x.st == T_BLOCKED && x.bk == k && x.bobj == obj && !x.signaled) w[nw++] = &x; }
    (void)t;
    while (n > 0 && nw > 0) {
        u32 j = nw > 1 ? decide_pick(nw) % nw : 0;
        w[j]->signaled = true;
        w[j] = w[--nw]; n--;
    }
}
static long ts_to_virtual(clockid_t clk, const struct timespec *ts) {
    // absolute deadline -> virtual ns since run start; "far future" -> -1 (untimed)
    __int128 ns = (__int128)ts->tv_sec * 1000000000 + ts->tv_nsec;
    if (clk == CLOCK_REALTIME) ns -= EPOCH_NS;
    if (ns > (__int128)100 * 365 * 86400 * 1000000000ll) return -1;
    if (ns < 0) ns = 0;
    return (long)ns;
}
static int cv_wait(SimThread *t, uintptr_t cv, uintptr_t m, bool timed, long deadline) {
    sched_point(t, SP_CV);
    if (coin(F_SPUR_CV, 0.03)) {            // spurious wake-up: unlock, let others run, relock
        mx_unlock(t, m); sched_point(t, SP_CV); mx_lock(t, m);
        return 0;
    }
    mx_unlock(t, m);
    t->signaled = false;
    touch_obj(t, cv); log_event(t, 30, obj_id(cv), timed);
    block(t, B_CV, cv, 0, timed, deadline);
    bool sig = t->signaled; t->signaled = false;
    log_event(t, 31, obj_id(cv), sig);
    mx_lock(t, m);
    return sig ? 0 : ETIMEDOUT;
}

// ------------------------------------------------------------------ thread body
void run_thread_state(void *state) {
    std::thread::_State *s = (std::thread::_State *)state;
    s->_M_run();
    delete s;
}
static SimThread *find_by_pt(pthread_t p) { for (int i = 0; i < G.nth; i++) if (pthread_equal(G.th[i].pt, p)) return &G.th[i]; return nullptr; }

} // namespace rt
using namespace rt;

// ====================================================================== atomics (TSan ABI)
typedef unsigned char a8; typedef unsigned short a16; typedef unsigned int a32; typedef unsigned long long a64;
#define PC() ((uintptr_t)__builtin_return_address(0))
enum { OP_LOAD = 1, OP_STORE, OP_XCHG, OP_ADD, OP_SUB, OP_AND, OP_OR, OP_XOR, OP_NAND, OP_CAS };

template <typename T> static inline T a_load(const volatile T *a, int mo, uintptr_t pc) {
    SimThread *t = simself();
    if (!t) return __atomic_load_n(a, __ATOMIC_SEQ_CST);
    probe_hit(pc); sched_point(t, SP_ATOMIC_PRE);
    T v = __atomic_load_n(a, __ATOMIC_SEQ_CST);
    hb_access(t, (uintptr_t)a, sizeof(T), false, true, pc);
    hb_atomic_load(t, (uintptr_t)a, mo);
    touch_obj(t, (uintptr_t)a); log_event(t, OP_LOAD, obj_id((uintptr_t)a), 0);
    sched_point(t, SP_ATOMIC_POST);
    return v;
}
template <typename T> static inline void a_store(volatile T *a, T v, int mo, uintptr_t pc) {
    SimThread *t = simself();
    if (!t) { __atomic_store_n(a, v, __ATOMIC_SEQ_CST); return; }
    probe_hit(pc); sched_point(t, SP_ATOMIC_PRE);
    hb_access(t, (uintptr_t)a, sizeof(T), true, true, pc);
    __atomic_store_n(a, v, __ATOMIC_SEQ_CST);
    hb_atomic_store(t, (uintptr_t)a, mo);
    touch_obj(t, (uintptr_t)a); log_event(t, OP_STORE, obj_id((uintptr_t)a), 0);
    sched_point(t, SP_ATOMIC_POST);
}
template <typename T> static inline T a_rmw(volatile T *a, T v, int mo, int op, uintptr_t pc) {
    SimThread *t = simself();
    if (t) { probe_hit(pc); sched_point(t, SP_ATOMIC_PRE); }
    T r;
    switch (op) {
    case OP_XCHG: r = __atomic_exchange_n(a, v, __ATOMIC_SEQ_CST); break;
    case OP_ADD: r = __atomic_fetch_add(a, v, __ATOMIC_SEQ_CST); break;
    case OP_SUB: r = __atomic_fetch_sub(a, v, __ATOMIC_SEQ_CST); break;
    case OP_AND: r = __atomic_fetch_and(a, v, __ATOMIC_SEQ_CST); break;
    case OP_OR: r = __atomic_fetch_or(a, v, __ATOMIC_SEQ_CST); break;
    case OP_XOR: r = __atomic_fetch_xor(a, v, __ATOMIC_SEQ_CST); break;
    default: r = __atomic_fetch_nand(a, v, __ATOMIC_SEQ_CST); break;
    }
    if (!t) return r;
    hb_access(t, (uintptr_t)a, sizeof(T), true, true, pc);
    hb_atomic_rmw(t, (uintptr_t)a, mo);
    touch_obj(t, (uintptr_t)a); log_event(t, op, obj_id((uintptr_t)a), 0);
    sched_point(t, SP_ATOMIC_POST);
    return r;
}
template <typename T> static inline int a_cas(volatile T *a, T *c, T v, int mo, int fmo, bool weak, uintptr_t pc) {
    SimThread *t = simself();
    if (!t) return __atomic_compare_exchange_n(a, c, v, false, __ATOMIC_SEQ_CST, __ATOMIC_SEQ_CST);
    probe_hit(pc); sched_point(t, SP_ATOMIC_PRE);
    // the 'expected' object is an ordinary object of the calling thread: read now, written on failure
    uintptr_t cx = (uintptr_t)c;
    if (cx >= HEAP_BASE && cx < HEAP_BASE + HEAP_SIZE) heap_check_access(t, cx, sizeof(T), false, pc);
    hb_access(t, cx, sizeof(T), false, false, pc);
    T cur = __atomic_load_n(a, __ATOMIC_SEQ_CST);
    int ok;
    if (cur == *c && weak && coin(F_CAS_WEAK, 0.05)) {
        ok = 0;                                              // spurious failure: *c already equals the current value
        hb_access(t, (uintptr_t)a, sizeof(T), false, true, pc);
        hb_atomic_load(t, (uintptr_t)a, fmo);
    } else if (cur == *c) {
        __atomic_store_n(a, v, __ATOMIC_SEQ_CST); ok = 1;
        hb_access(t, (uintptr_t)a, sizeof(T), true, true, pc);
        hb_atomic_rmw(t, (uintptr_t)a, mo);
    } else {
        ok = 0;
        hb_access(t, cx, sizeof(T), true, false, pc);
        *c = cur;
        hb_access(t, (uintptr_t)a, sizeof(T), false, true, pc);
        hb_atomic_load(t, (uintptr_t)a, fmo);
    }
    if (ok) t->cas_fail_streak = 0; else if (++t->cas_fail_streak >= 8) { mark_yield(t); t->cas_fail_streak = 0; }
    touch_obj(t, (uintptr_t)a); log_event(t, OP_CAS, obj_id((uintptr_t)a), ok);
    sched_point(t, SP_ATOMIC_POST);
    return ok;
}

#define DEF_ATOMICS(N, T)                                                                                                         \
    extern "C" T __tsan_atomic##N##_load(const volatile T *a, int mo) { return a_load<T>(a, mo, PC()); }                          \
    extern "C" void __tsan_atomic##N##_store(volatile T *a, T v, int mo) { a_store<T>(a, v, mo, PC()); }                          \
    extern "C" T __tsan_atomic##N##_exchange(volatile T *a, T v, int mo) { return a_rmw<T>(a, v, mo, OP_XCHG, PC()); }            \
    extern "C" T __tsan_atomic##N##_fetch_add(volatile T *a, T v, int mo) { return a_rmw<T>(a, v, mo, OP_ADD, PC()); }            \
    extern "C" T __tsan_atomic##N##_fetch_sub(volatile T *a, T v, int mo) { return a_rmw<T>(a, v, mo, OP_SUB, PC()); }            \
    extern "C" T __tsan_atomic##N##_fetch_and(volatile T *a, T v, int mo) { return a_rmw<T>(a, v, mo, OP_AND, PC()); }            \
    extern "C" T __tsan_atomic##N##_fetch_or(volatile T *a, T v, int mo) { return a_rmw<T>(a, v, mo, OP_OR, PC()); }              \
    extern "C" T __tsan_atomic##N##_fetch_xor(volatile T *a, T v, int mo) { return a_rmw<T>(a, v, mo, OP_XOR, PC()); }            \
    extern "C" T __tsan_atomic##N##_fetch_nand(volatile T *a, T v, int mo) { return a_rmw<T>(a, v, mo, OP_NAND, PC()); }          \
    extern "C" int __tsan_atomic##N##_compare_exchange_strong(volatile T *a, T *c, T v, int mo, int fmo) { return a_cas<T>(a, c, v, mo, fmo, false, PC()); } \
    extern "C" int __tsan_atomic##N##_compare_exchange_weak(volatile T *a, T *c, T v, int mo, int fmo) { return a_cas<T>(a, c, v, mo, fmo, true, PC()); }   \
    extern "C" T __tsan_atomic##N##_compare_exchange_val(volatile T *a, T c, T v, int mo, int fmo) { a_cas<T>(a, &c, v, mo, fmo, false, PC()); return c; }
DEF_ATOMICS(8, a8)
DEF_ATOMICS(16, a16)
DEF_ATOMICS(32, a32)
DEF_ATOMICS(64, a64)
extern "C" void __tsan_atomic_thread_fence(int mo) {
    SimThread *t = simself(); if (!t) { __atomic_thread_fence(__ATOMIC_SEQ_CST); return; }
    hb_fence(t, mo); log_event(t, 12, 0, (u64)mo);
}
extern "C" void __tsan_atomic_signal_fence(int) {}

// ====================================================================== pthread mutex
extern "C" int __wrap_pthread_mutex_lock(pthread_mutex_t *m) {
    SimThread *t = simself(); if (!t) return __real_pthread_mutex_lock(m);
    sched_point(t, SP_MUTEX); mx_lock(t, (uintptr_t)m); return 0;
}
extern "C" int __wrap_pthread_mutex_trylock(pthread_mutex_t *m) {
    SimThread *t = simself(); if (!t) return __real_pthread_mutex_trylock(m);
    sched_point(t, SP_MUTEX);
    if (!mutex_is_free((uintptr_t)m)) { log_event(t, 22, obj_id((uintptr_t)m), 0); return EBUSY; }
    mx_lock(t, (uintptr_t)m); return 0;
}
extern "C" int __wrap_pthread_mutex_unlock(pthread_mutex_t *m) {
    SimThread *t = simself(); if (!t) return __real_pthread_mutex_unlock(m);
    mx_unlock(t, (uintptr_t)m); sched_point(t, SP_MUTEX); return 0;
}

// ====================================================================== condition_variable
void std::condition_variable::wait(std::unique_lock<std::mutex> &lk) {
    SimThread *t = simself();
    if (!t) { pthread_cond_wait(native_handle(), lk.mutex()->native_handle()); return; }
    cv_wait(t, (uintptr_t)native_handle(), (uintptr_t)lk.mutex()->native_handle(), false, 0);
}
void std::condition_variable::notify_one() noexcept {
    SimThread *t = simself();
    if (!t) { pthread_cond_signal(native_handle()); return; }
    sched_point(t, SP_CV); touch_obj(t, (uintptr_t)native_handle()); log_event(t, 32, obj_id((uintptr_t)native_handle()), 1);
    wake_waiters(t, B_CV, (uintptr_t)native_handle(), 1); sched_point(t, SP_CV);
}
void std::condition_variable::notify_all() noexcept {
    SimThread *t = simself();
    if (!t) { pthread_cond_broadcast(native_handle()); return; }
    sched_point(t, SP_CV); touch_obj(t, (uintptr_t)native_handle()); log_event(t, 32, obj_id((uintptr_t)native_handle()), 2);
    wake_waiters(t, B_CV, (uintptr_t)native_handle(), MAXT); sched_point(t, SP_CV);
}
extern "C" int __wrap_pthread_cond_timedwait(pthread_cond_t *c, pthread_mutex_t *m, const struct timespec *ts) {
    SimThread *t = simself(); if (!t) return __real_pthread_cond_timedwait(c, m, ts);
    long d = ts_to_virtual(CLOCK_REALTIME, ts);
    return cv_wait(t, (uintptr_t)c, (uintptr_t)m, d >= 0, d);
}
extern "C" int __wrap_pthread_cond_clockwait(pthread_cond_t *c, pthread_mutex_t *m, clockid_t clk, const struct timespec *ts) {
    SimThread *t = simself(); if (!t) return __real_pthread_cond_clockwait(c, m, clk, ts);
    long d = ts_to_virtual(clk, ts);
    return cv_wait(t, (uintptr_t)c, (uintptr_t)m, d >= 0, d);
}

// ====================================================================== futex (std::atomic::wait/notify, semaphores)
extern "C" long __wrap_syscall(long n, long a1, long a2, long a3, long a4, long a5, long a6) {
    SimThread *t = simself();
    if (!t || n != SYS_futex) return __real_syscall(n, a1, a2, a3, a4, a5, a6);
    int op = (int)a2 & ~(FUTEX_PRIVATE_FLAG | FUTEX_CLOCK_REALTIME);
    uintptr_t addr = (uintptr_t)a1;
    if (op == FUTEX_WAIT || op == FUTEX_WAIT_BITSET) {
        sched_point(t, SP_FUTEX);
        int cur = __atomic_load_n((volatile int *)addr, __ATOMIC_SEQ_CST);
        touch_obj(t, addr);
        if (cur != (int)a3) { log_event(t, 40, obj_id(addr), 1); mark_yield(t); errno = EAGAIN; return -1; }
        if (coin(F_SPUR_FUTEX, 0.03)) { log_event(t, 40, obj_id(addr), 2); sched_point(t, SP_FUTEX); return 0; }
        bool timed = false; long dl = 0;
        const struct timespec *ts = (const struct timespec *)a4;
        if (ts) {
            timed = true;
            if (op == FUTEX_WAIT) dl = G.now + ts->tv_sec * 1000000000l + ts->tv_nsec;
            else { long d = ts_to_virtual(((int)a2 & FUTEX_CLOCK_REALTIME) ? CLOCK_REALTIME : CLOCK_MONOTONIC, ts); if (d < 0) timed = false; else dl = d; }
        }
        t->signaled = false;
        log_event(t, 40, obj_id(addr), 0);
        block(t, B_FUTEX, addr, 0, timed, dl);
        bool sig = t->signaled; t->signaled = false;
        log_event(t, 41, obj_id(addr), sig);
        if (!sig) { errno = ETIMEDOUT; return -1; }
        return 0;
    }
    if (op == FUTEX_WAKE || op == FUTEX_WAKE_BITSET) {
        sched_point(t, SP_FUTEX);
        int before = 0; for (int i = 0; i < G.nth; i++) if (G.th[i].st == T_BLOCKED && G.th[i].bk == B_FUTEX && G.th[i].bobj == addr && !G.th[i].signaled) before++;
        int n = (int)a3; if (n < 0 || n > MAXT) n = MAXT;
        touch_obj(t, addr); log_event(t, 42, obj_id(addr), (u64)n);
        wake_waiters(t, B_FUTEX, addr, n);
        sched_point(t, SP_FUTEX);
        return before < n ? before : n;
    }
    harness_limit("unsupported futex operation under simulation");
}
extern "C" int __wrap_sched_yield() {
    SimThread *t = simself(); if (!t) return __real_sched_yield();
    mark_yield(t); sched_point(t, SP_YIELD); return 0;
}

// ====================================================================== std::thread
void std::thread::_M_start_thread(_State_ptr state, void (*)()) {
    SimThread *t = simself();
    if (!t) { fprintf(stderr, "dsim: std::thread created outside the simulation\n"); abort(); }
    sched_point(t, SP_THREAD);
    SimThread *c = spawn(t, state.release(), nullptr);
    _M_id = id(c->pt);
    log_event(t, 50, (u64)c->id, 0);
    sched_point(t, SP_THREAD);
}
void std::thread::join() {
    SimThread *t = simself();
    if (!t) { fprintf(stderr, "dsim: std::thread::join outside the simulation\n"); abort(); }
    SimThread *c = find_by_pt(_M_id._M_thread);
    if (!c || c == t || c->joined || c->detached) violation("crash.thread_join", "T%d joins a thread that is not joinable (or itself): std::system_error in a real run", t->id);
    sched_point(t, SP_THREAD);
    while (c->st != T_FINISHED) block(t, B_JOIN, 0, c->id, false, 0);
    t->vc.join(c->vc); c->joined = true;
    log_event(t, 51, (u64)c->id, 0);
    _M_id = id();
}
void std::thread::detach() {
    SimThread *t = simself();
    if (!t) { fprintf(stderr, "dsim: std::thread::detach outside the simulation\n"); abort(); }
    SimThread *c = find_by_pt(_M_id._M_thread);
    if (!c || c->joined || c->detached) violation("crash.thread_detach", "T%d detaches a thread that is not joinable", t->id);
    c->detached = true;
    log_event(t, 52, (u64)c->id, 0);
    _M_id = id();
}
unsigned int std::thread::hardware_concurrency() noexcept { return 2; }

// ====================================================================== clocks and sleeps
std::chrono::system_clock::time_point std::chrono::system_clock::now() noexcept {
    if (!simself()) { struct timespec ts; clock_gettime(CLOCK_REALTIME, &ts); return time_point(duration(std::chrono::seconds(ts.tv_sec) + std::chrono::nanoseconds(ts.tv_nsec))); }
    clock_read();
    return time_point(duration(std::chrono::nanoseconds(EPOCH_NS + G.now)));
}
std::chrono::steady_clock::time_point std::chrono::steady_clock::now() noexcept {
    if (!simself()) { struct timespec ts; clock_gettime(CLOCK_MONOTONIC, &ts); return time_point(duration(std::chrono::seconds(ts.tv_sec) + std::chrono::nanoseconds(ts.tv_nsec))); }
    clock_read();
    return time_point(duration(std::chrono::nanoseconds(G.now)));
}
static void sim_sleep(SimThread *t, long ns) {
    if (ns < 0) ns = 0;
    log_event(t, 60, 0, (u64)ns);
    block(t, B_SLEEP, 0, 0, true, G.now + ns);
}
extern "C" int __wrap_nanosleep(const struct timespec *rq, struct timespec *rm) {
    SimThread *t = simself(); if (!t) return __real_nanosleep(rq, rm);
    sim_sleep(t, rq->tv_sec * 1000000000l + rq->tv_nsec); if (rm) { rm->tv_sec = 0; rm->tv_nsec = 0; } return 0;
}
extern "C" int __wrap_clock_nanosleep(clockid_t clk, int flags, const struct timespec *rq, struct timespec *rm) {
    SimThread *t = simself(); if (!t) return __real_clock_nanosleep(clk, flags, rq, rm);
    if (flags & TIMER_ABSTIME) { long d = ts_to_virtual(clk, rq); if (d < 0) d = G.now; sim_sleep(t, d - G.now); }
    else sim_sleep(t, rq->tv_sec * 1000000000l + rq->tv_nsec);
    return 0;
}
// ====================================================================== function-local static guards
extern "C" int __wrap___cxa_guard_acquire(long *g) {
    SimThread *t = simself(); if (!t) return __real___cxa_guard_acquire(g);
    if (*(volatile char *)g) return 0;
    sched_point(t, SP_GUARD);
    MxEnt *e = mx_find((uintptr_t)g);
    while (e->owner >= 0) { block(t, B_GUARD, (uintptr_t)g, 0, false, 0); e = mx_find((uintptr_t)g); }
    t->vc.join(e->vc);
    if (*(volatile char *)g) return 0;
    e->owner = t->id;
    return 1;
}
extern "C" void __wrap___cxa_guard_release(long *g) {
    SimThread *t = simself(); if (!t) { __real___cxa_guard_release(g); return; }
    *(volatile char *)g = 1;
    MxEnt *e = mx_find((uintptr_t)g); e->owner = -1; e->vc = t->vc; hb_tick(t);
}
extern "C" void __wrap___cxa_guard_abort(long *g) {
    SimThread *t = simself(); if (!t) { __real___cxa_guard_abort(g); return; }
    MxEnt *e = mx_find((uintptr_t)g); e->owner = -1;
}
extern "C" void *__wrap___cxa_allocate_exception(size_t n) {
    void *p = __real___cxa_allocate_exception(n);
    if (simself()) hb_clear_range((uintptr_t)p, n);
    return p;
}

// ====================================================================== assertion failures
extern "C" void __wrap___assert_fail(const char *expr, const char *file, unsigned line, const char *fn) {
    if (!tl_self && !G.run_active) __real___assert_fail(expr, file, line, fn);
    const char *base = file; for (const char *p = file; *p; p++) if (*p == '/') base = p + 1;
    char cls[160]; snprintf(cls, sizeof cls, "assert:%s:%u", base, line);
    violation(cls, "assertion failed: %s (%s:%u, %s)", expr, file, line, fn);
}
extern "C" void dsim_glibcxx_assert_fail(const char *file, int line, const char *fn, const char *cond) __asm__("_ZSt21__glibcxx_assert_failPKciS0_S0_");
extern "C" void dsim_glibcxx_assert_fail(const char *file, int line, const char *fn, const char *cond) {
    const char *base = file ? file : "?"; for (const char *p = base; *p; p++) if (*p == '/') base = p + 1;
    char cls[160]; snprintf(cls, sizeof cls, "glibcxx_assert:%s:%d", base, line);
    violation(cls, "libstdc++ assertion failed: %s (%s:%d, %s)", cond ? cond : "?", file ? file : "?", line, fn ? fn : "?");
}
