// rt_sched.cpp — thread registry, park/unpark, strategies, decisions, virtual time, verdicts.
#include "rt_core.h"
#include <errno.h>
#include <linux/futex.h>
#include <signal.h>
#include <stdarg.h>
#include <stdio.h>
#include <sys/mman.h>
#include <sys/syscall.h>
#include <unistd.h>

extern "C" long __real_syscall(long n, ...);

namespace rt {

Global G;
__thread SimThread *tl_self;
__thread int tl_in_rt;
const char *const fault_names[F_NKINDS] = {"preempt", "cas_weak_spurious", "spurious_cv_wake", "spurious_futex_wake", "stall", "clock_advance", "starve"};

// ------------------------------------------------------------------ prng
static inline u64 rotl(u64 x, int k) { return (x << k) | (x >> (64 - k)); }
static u64 splitmix(u64 &x) { u64 z = (x += 0x9e3779b97f4a7c15ull); z = (z ^ (z >> 30)) * 0xbf58476d1ce4e5b9ull; z = (z ^ (z >> 27)) * 0x94d049bb133111ebull; return z ^ (z >> 31); }
static u64 xnext(u64 *s) { u64 s0 = s[0], s1 = s[1], r = s0 + s1; s1 ^= s0; s[0] = rotl(s0, 55) ^ s1 ^ (s1 << 14); s[1] = rotl(s1, 36); return r; }
void rng_seed(u64 *s, u64 seed, u64 stream) { u64 x = seed * 0x9e3779b97f4a7c15ull + stream * 0xd1b54a32d192ed03ull + 1; s[0] = splitmix(x); s[1] = splitmix(x); if (!s[0] && !s[1]) s[0] = 1; }
static inline u32 rnd_below(u64 *s, u32 n) { return n ? (u32)((xnext(s) >> 11) % n) : 0; }
static inline double rnd_unit(u64 *s) { return (double)(xnext(s) >> 11) * (1.0 / 9007199254740992.0); }

// ------------------------------------------------------------------ park / unpark
static void fwait(volatile int *w, int v) { __real_syscall(SYS_futex, w, FUTEX_WAIT_PRIVATE, v, nullptr, nullptr, 0); }
static void fwake(volatile int *w) { __real_syscall(SYS_futex, w, FUTEX_WAKE_PRIVATE, 1, nullptr, nullptr, 0); }
static void unpark(SimThread *t) { __atomic_store_n(&t->go, 1, __ATOMIC_SEQ_CST); fwake(&t->go); }
static void park(SimThread *t) {
    t->saved_sp = (uintptr_t)__builtin_frame_address(0);
    while (__atomic_load_n(&t->go, __ATOMIC_SEQ_CST) == 0) fwait(&t->go, 0);
    __atomic_store_n(&t->go, 0, __ATOMIC_SEQ_CST);
    t->saved_sp = 0;
}
void wake_main() { __atomic_store_n(&G.done, 1, __ATOMIC_SEQ_CST); fwake(&G.done); }
void main_wait_done() { while (__atomic_load_n(&G.done, __ATOMIC_SEQ_CST) == 0) fwait(&G.done, 0); }

// ------------------------------------------------------------------ event log / fingerprint
struct Ev { u64 step; u32 kind; int tid; u64 obj, out; const char *name; };
static Ev ring[128]; static u64 ring_n;
static inline void fpmix(u64 v) { G.fp = (G.fp ^ v) * 0x100000001b3ull; G.fp ^= G.fp >> 29; }
void log_event(SimThread *t, u32 kind, u64 obj, u64 outcome) {
    fpmix(((u64)(t ? t->id : 31) << 56) ^ ((u64)kind << 48) ^ (obj << 8) ^ outcome);
    Ev &e = ring[ring_n++ & 127]; e.step = G.steps; e.kind = kind; e.tid = t ? t->id : -1; e.obj = obj; e.out = outcome; e.name = nullptr;
}
static void log_named(SimThread *t, const char *name, long a, long b) {
    u64 h = 1469598103934665603ull; for (const char *p = name; *p; p++) h = (h ^ (u8)*p) * 0x100000001b3ull;
    fpmix(((u64)(t ? t->id : 31) << 56) ^ h ^ ((u64)a * 31) ^ ((u64)b * 131));
    Ev &e = ring[ring_n++ & 127]; e.step = G.steps; e.kind = 0; e.tid = t ? t->id : -1; e.obj = (u64)a; e.out = (u64)b; e.name = name;
}

// object ids in first-use order + last toucher (interaction measure)
struct ObjEnt { uintptr_t key; u32 gen; u32 id; int last_tid; };
static ObjEnt objtab[1 << 14]; static u32 obj_next;
static ObjEnt *obj_find(uintptr_t a) {
    u64 h = (a * 0x9E3779B97F4A7C15ull) >> 50;
    for (int i = 0; i < 64; i++) {
        ObjEnt &e = objtab[(h + i) & ((1 << 14) - 1)];
        if (e.gen != G.gen) { e.key = a; e.gen = G.gen; e.id = obj_next++; e.last_tid = -1; return &e; }
        if (e.key == a) return &e;
    }
    return nullptr;
}
u32 obj_id(uintptr_t a) { ObjEnt *e = obj_find(a); return e ? e->id : 0xffff; }
void touch_obj(SimThread *t, uintptr_t a) {
    ObjEnt *e = obj_find(a); if (!e) return;
    if (e->last_tid >= 0 && e->last_tid != t->id) G.interactions++;
    e->last_tid = t->id;
}

// ------------------------------------------------------------------ output helpers
static char outbuf[1 << 16]; static size_t outlen;
static void oflush() { size_t o = 0; while (o < outlen) { ssize_t w = write(1, outbuf + o, outlen - o); if (w <= 0) break; o += w; } outlen = 0; }
void oprintf(const char *fmt, ...) {
    va_list ap; va_start(ap, fmt);
    if (outlen > sizeof outbuf - 4096) oflush();
    int n = vsnprintf(outbuf + outlen, sizeof outbuf - outlen, fmt, ap); va_end(ap);
    if (n > 0) { outlen += (size_t)n < sizeof outbuf - outlen ? (size_t)n : sizeof outbuf - outlen - 1; }
}
void oflush_pub() { oflush(); }
static void ojson_str(const char *s) {
    oprintf("\"");
    for (; *s; s++) {
        unsigned char c = (unsigned char)*s;
        if (c == '"' || c == '\\') oprintf("\\%c", c);
        else if (c == '\n') oprintf("\\n");
        else if (c < 0x20) oprintf(" ");
        else oprintf("%c", c);
    }
    oprintf("\"");
}
void emit_plan_dec() {
    oprintf("\"plan\":[");
    for (size_t i = 0; i < G.plan_out.n; i++) oprintf("%s%u", i ? "," : "", G.plan_out[i]);
    oprintf("],\"plan_bound\":[");
    for (size_t i = 0; i < G.plan_bound.n; i++) oprintf("%s%u", i ? "," : "", G.plan_bound[i]);
    oprintf("],\"dec\":[");
    for (size_t i = 0; i < G.devs_out.n; i++) oprintf("%s[%u,%u]", i ? "," : "", G.devs_out[i].idx, G.devs_out[i].val);
    oprintf("]");
}
void emit_run_fields() {
    oprintf("\"seed\":%llu,\"fp\":\"%016llx\",\"steps\":%llu,\"switches\":%llu,\"threads\":%d,\"interactions\":%llu,\"vtime_ns\":%ld,\"decisions\":%llu,\"faults_on\":%d,\"plain_points\":%d,\"strategy\":%d,\"races\":%llu,",
            (unsigned long long)G.seed, (unsigned long long)G.fp, (unsigned long long)G.steps, (unsigned long long)G.switches, G.nth,
            (unsigned long long)G.interactions, G.now, (unsigned long long)G.decisions, (int)G.faults_on, (int)G.plain_points, G.strategy, (unsigned long long)G.races);
    oprintf("\"fired\":{");
    for (int i = 0; i < F_NKINDS; i++) oprintf("%s\"%s\":%llu", i ? "," : "", fault_names[i], (unsigned long long)G.fault_fired[i]);
    oprintf("},\"note\":"); ojson_str(G.note); oprintf(",");
    emit_plan_dec();
}
static void emit_trace_tail() {
    oprintf(",\"tail\":[");
    u64 from = ring_n > 100 ? ring_n - 100 : 0; bool first = true;
    for (u64 i = from; i < ring_n; i++) {
        Ev &e = ring[i & 127];
        oprintf("%s", first ? "" : ","); first = false;
        if (e.name) { oprintf("[%llu,%d,", (unsigned long long)e.step, e.tid); ojson_str(e.name); oprintf(",%lld,%lld]", (long long)e.obj, (long long)e.out); }
        else oprintf("[%llu,%d,%u,%llu,%llu]", (unsigned long long)e.step, e.tid, e.kind, (unsigned long long)e.obj, (unsigned long long)e.out);
    }
    oprintf("]");
}
static const char *bk_name(int k) { static const char *n[] = {"none", "mutex", "condvar", "futex", "join", "sleep", "cell", "guard", "starved"}; return n[k]; }
static void emit_threads() {
    oprintf(",\"threads_state\":[");
    static char sb[2048];
    for (int i = 0; i < G.nth; i++) {
        SimThread &t = G.th[i];
        format_stack(sb, sizeof sb, t.stack_node, 0);
        oprintf("%s{\"id\":%d,\"st\":%d,\"blocked_on\":\"%s\",\"obj\":%u,\"timed\":%d,\"stack\":\"%s\"}", i ? "," : "", i, (int)t.st, t.st == T_BLOCKED ? bk_name(t.bk) : "-", t.st == T_BLOCKED ? obj_id(t.bobj) : 0, (int)t.timed, sb);
    }
    oprintf("]");
}
void (*on_die)();
extern "C" void __gcov_dump() __attribute__((weak));
static volatile int dying;
[[noreturn]] static void die_with(const char *kind, int code, const char *cls, const char *msg) {
    if (__atomic_exchange_n(&dying, 1, __ATOMIC_SEQ_CST)) { for (;;) pause(); }
    tl_in_rt++;
    oprintf("{\"t\":\"%s\",\"class\":", kind); ojson_str(cls); oprintf(",\"msg\":"); ojson_str(msg); oprintf(",");
    emit_run_fields();
    SimThread *t = tl_self ? tl_self : G.cur;      // reported by the real-time watchdog: the thread that is running
    static char sb[4096];
    if (t) { format_stack(sb, sizeof sb, t->stack_node, 0); oprintf(",\"by\":%d,\"stack\":\"%s\"", t->id, sb); }
    emit_threads();
    emit_trace_tail();
    oprintf("}\n"); oflush();
    if (on_die) on_die(); else probes_dump();
    oflush();
    if (__gcov_dump) __gcov_dump();          // only in the coverage build of bin/coverage
    _exit(code);
}
[[noreturn]] void violation(const char *cls, const char *fmt, ...) {
    static char msg[4096]; va_list ap; va_start(ap, fmt); vsnprintf(msg, sizeof msg, fmt, ap); va_end(ap);
    die_with("V", ST_VIOLATION, cls, msg);
}
[[noreturn]] void harness_limit(const char *what) { die_with("L", ST_LIMIT, "harness_limit", what); }

// ------------------------------------------------------------------ decisions
static inline bool have_dev(u32 idx, u32 *val) {
    while (G.devs_pos < G.devs_in.n && G.devs_in[G.devs_pos].idx < idx) G.devs_pos++;
    if (G.devs_pos < G.devs_in.n && G.devs_in[G.devs_pos].idx == idx) { *val = G.devs_in[G.devs_pos].val; return true; }
    return false;
}
// returns the decision value; proposed is what the recording strategy wants
static u32 decide(u32 n, u32 proposed) {
    u32 idx = (u32)G.decisions++;
    u32 v;
    if (G.replay_dec) { v = 0; u32 d; if (have_dev(idx, &d)) v = n ? d % n : 0; }
    else v = proposed;
    if (v) G.devs_out.push({idx, v});
    return v;
}
bool coin(int kind, double p) {
    if (!G.replay_dec && (!G.faults_on || G.fair)) return false;   // not a decision point at all when faults are off
    if (G.replay_dec && !G.faults_on) return false;
    if (G.fair) return false;
    u32 prop = 0;
    if (!G.replay_dec) prop = rnd_unit(G.rng_dec) < p ? 1 : 0;
    u32 v = decide(2, prop);
    if (v) G.fault_fired[kind]++;
    return v != 0;
}
u32 decide_pick(u32 n) {
    if (n <= 1) return 0;
    u32 prop = 0;
    if (!G.replay_dec) prop = rnd_below(G.rng_dec, n);
    return decide(n, prop);
}

// ------------------------------------------------------------------ runnable set
static bool can_run(SimThread *t) {
    if (t->st == T_RUNNABLE) return true;
    if (t->st != T_BLOCKED) return false;
    switch (t->bk) {
    case B_MUTEX: return mutex_is_free(t->bobj);
    case B_GUARD: return guard_is_free(t->bobj);
    case B_CV: case B_FUTEX: return t->signaled || (t->timed && G.now >= t->deadline);
    case B_JOIN: return G.th[t->bval].st == T_FINISHED;
    case B_SLEEP: return G.now >= t->deadline;
    case B_CELL: return G.cells[t->bobj] >= t->bval;
    case B_STARVE: return G.fair || (long)G.steps >= t->deadline;     // descheduled until everybody else is blocked (pick() releases it), for at most a bounded number of steps
    default: return false;
    }
}
static void deadlock(SimThread *self) {
    (void)self;
    if (G.deadlock_cb) G.deadlock_cb();
    static char m[1024]; size_t o = 0;
    for (int i = 0; i < G.nth; i++) if (G.th[i].st == T_BLOCKED) o += snprintf(m + o, sizeof m - o, "T%d:%s(obj%u) ", i, bk_name(G.th[i].bk), obj_id(G.th[i].bobj));
    violation("deadlock", "no simulated thread can run and no timer is pending: %s", m);
}

enum { S_RANDOM = 0, S_PCT, S_RR, S_STICKY };

// choose the next thread to run. self may be null (thread finished) or blocked.
static SimThread *pick(SimThread *self) {
    SimThread *run[MAXT]; int n = 0;
    for (;;) {
        n = 0;
        for (int i = 0; i < G.nth; i++) if (can_run(&G.th[i])) run[n++] = &G.th[i];
        if (n) break;
        bool starved = false;
        for (int i = 0; i < G.nth; i++) if (G.th[i].st == T_BLOCKED && G.th[i].bk == B_STARVE) { G.th[i].deadline = 0; starved = true; }
        if (starved) continue;          // nobody else can run: the starved threads are released before virtual time moves or a deadlock is declared
        long best = -1;
        for (int i = 0; i < G.nth; i++) { SimThread &t = G.th[i]; if (t.st == T_BLOCKED && (t.bk == B_SLEEP || ((t.bk == B_CV || t.bk == B_FUTEX) && t.timed))) if (best < 0 || t.deadline < best) best = t.deadline; }
        if (best < 0) { deadlock(self); }
        if (best > G.now) G.now = best;
    }
    // default choice
    bool self_ok = self && can_run(self) && !self->yielding && self->run_streak < 3000;
    SimThread *def = nullptr;
    if (self_ok) def = self;
    else { int from = self ? self->id : -1; for (int k = 1; k <= MAXT && !def; k++) { int id = (from + k) % MAXT; for (int j = 0; j < n; j++) if (run[j]->id == id) { def = run[j]; break; } } }
    SimThread *chosen = def;
    if (n > 1) {
        SimThread *others[MAXT]; int no = 0;
        for (int j = 0; j < n; j++) if (run[j] != def) others[no++] = run[j];
        u32 prop = 0;
        if (!G.replay_dec) {
            SimThread *want = def;
            if (G.fair) {
                if (self && self == def && (G.steps % 8) == 0) { // round robin
                    for (int k = 1; k <= MAXT; k++) { int id = (self->id + k) % MAXT; bool f = false; for (int j = 0; j < n; j++) if (run[j]->id == id) { want = run[j]; f = true; break; } if (f) break; }
                }
            } else switch (G.strategy) {
            case S_RANDOM: case S_STICKY:
                if (rnd_unit(G.rng_dec) < G.p_switch) want = others[rnd_below(G.rng_dec, no)];
                break;
            case S_PCT: {
                for (int k = 0; k < G.pct_depth - 1; k++) if (G.pct_points[k] == G.steps && self) self->prio = G.prio_low--;
                SimThread *b = run[0]; for (int j = 1; j < n; j++) if (run[j]->prio > b->prio) b = run[j];
                want = b; break; }
            case S_RR:
                if (self && self == def && (G.steps % G.rr_quantum) == 0) want = others[0];
                if (self && self == def && want == others[0]) { for (int k = 1; k <= MAXT; k++) { int id = (self->id + k) % MAXT; bool f = false; for (int j = 0; j < no; j++) if (others[j]->id == id) { want = others[j]; f = true; break; } if (f) break; } }
                break;
            }
            if (want != def) { for (int j = 0; j < no; j++) if (others[j] == want) prop = j + 1; }
        }
        u32 v = decide(no + 1, prop);
        if (v) { chosen = others[(v - 1) % no]; if (self && can_run(self) && chosen != self) G.fault_fired[F_PREEMPT]++; }
    }
    return chosen;
}

static void run_thread(SimThread *self, SimThread *next) {
    if (next->st == T_BLOCKED) { next->st = T_RUNNABLE; }
    if (next == self) { self->run_streak++; return; }
    next->run_streak = 0; next->yielding = false;
    G.switches++;
    G.cur = next;
    unpark(next);
    if (self) park(self);
}

static void check_caps(SimThread *t) {
    if (!G.fair && G.steps >= G.cfg.fair_after) { G.fair = true; }
    if (G.steps >= (u64)G.cfg.fair_after + G.cfg.liveness_budget || G.steps >= G.cfg.max_steps) {
        if (G.deadlock_cb) G.deadlock_cb();
        violation("no_progress", "scenario did not finish within %llu steps (%u of them under fair round-robin without faults)", (unsigned long long)G.steps, G.cfg.liveness_budget);
    }
    (void)t;
}

void sched_point(SimThread *t, int kind) {
    G.steps++;
    check_caps(t);
    if (G.cfg.stalls && kind != SP_ATOMIC_POST) {
        if (coin(F_CLOCK_ADV, 0.01)) { long d = 1000 + (long)(decide_pick(64)) * 997003; G.now += d; }
        if (coin(F_STALL, 0.005)) { long d = 1000 + (long)(decide_pick(64)) * 1499977; block(t, B_SLEEP, 0, 0, true, G.now + d); return; }
    }
    // starvation: the running thread loses the processor until every other thread is blocked or finished (bounded by a step count);
    // virtual time does not move. Opens windows that lie behind spin-then-block waits (a notifier stopped between its wake-up call
    // and the store the waiter is waiting for, while the waiter spins, yields and finally blocks again).
    if (G.nth > 1 && kind != SP_USER && coin(F_STARVE, G.starve_p)) { block(t, B_STARVE, 0, 0, false, (long)G.steps + 2500); return; }
    SimThread *next = pick(t);
    run_thread(t, next);
}

void block(SimThread *t, BKind k, uintptr_t obj, long val, bool timed, long deadline) {
    G.steps++;
    check_caps(t);
    if (k != B_CELL && k != B_STARVE) t->blocks++;
    t->st = T_BLOCKED; t->bk = k; t->bobj = obj; t->bval = val; t->timed = timed; t->deadline = deadline;
    SimThread *next = pick(t);
    run_thread(t, next);
    t->st = T_RUNNABLE; t->bk = B_NONE;
}

void finish_thread(SimThread *t) {
    // runs on t, inside its pthread-key destructor, holding the token
    t->st = T_FINISHED; hb_tick(t);
    log_event(t, 90, 0, 0);
    tl_self = nullptr;
    bool all = true;
    for (int i = 0; i < G.nth; i++) if (G.th[i].st != T_FINISHED) all = false;
    if (all) { G.cur = nullptr; wake_main(); return; }
    G.steps++;
    SimThread *next = pick(nullptr);
    if (next->st == T_BLOCKED) next->st = T_RUNNABLE;
    next->run_streak = 0; next->yielding = false;
    G.switches++; G.cur = next; unpark(next);
}

// ------------------------------------------------------------------ thread creation
static pthread_key_t exit_key;
static char altstacks[MAXT][32768];
static void key_dtor(void *p) { SimThread *t = (SimThread *)p; if (t) finish_thread(t); }
void run_thread_state(void *state);   // sync.cpp (needs <thread>)

static void *thread_main(void *arg) {
    SimThread *t = (SimThread *)arg;
    tl_self = t;
    stack_t ss; ss.ss_sp = altstacks[t->id]; ss.ss_size = sizeof altstacks[0]; ss.ss_flags = 0; sigaltstack(&ss, nullptr);
    pthread_setspecific(exit_key, t);
    park(t);
    t->started = true;
    log_event(t, 91, 0, 0);
    try {
        if (t->entry) t->entry(); else run_thread_state(t->tstate);
    } catch (...) {
        violation("crash.uncaught_exception", "exception escaped simulated thread %d", t->id);
    }
    return nullptr;
}

SimThread *spawn(SimThread *parent, void *tstate, void (*entry)()) {
    if (G.nth >= MAXT) harness_limit("more than 16 simulated threads");
    SimThread *c = &G.th[G.nth];
    // keep frames array out of the memset cost: reset only scalar part
    c->id = G.nth; c->go = 0; c->st = T_RUNNABLE; c->bk = B_NONE; c->bobj = 0; c->bval = 0; c->timed = false; c->deadline = 0; c->signaled = false;
    c->detached = c->joined = c->started = false; c->has_rel_fence = false; c->acq_pending.clear(); c->rel_fence.clear();
    c->tstate = tstate; c->entry = entry; c->stack_node = 0; c->depth = 0; c->yield_streak = 0; c->cas_fail_streak = 0; c->yielding = false;
    c->allocs = c->allocs_excl = 0; c->blocks = 0; c->run_streak = 0; c->saved_sp = 0;
    c->stack_lo = STACK_BASE + (uintptr_t)c->id * STACK_SZ; c->stack_hi = c->stack_lo + STACK_SZ;
    if (parent) { c->vc = parent->vc; hb_tick(parent); } else c->vc.clear();
    c->vc.c[c->id] = 1;
    c->prio = G.replay_dec ? 1000 : 1000 + rnd_below(G.rng_dec, 1000000);
    G.nth++;
    if (G.nth > G.max_threads_seen) G.max_threads_seen = G.nth;
    pthread_attr_t at; pthread_attr_init(&at);
    pthread_attr_setstack(&at, (void *)(c->stack_lo + 4096), STACK_SZ - 4096);
    tl_in_rt++;
    int e = pthread_create(&c->pt, &at, thread_main, c);
    tl_in_rt--;
    pthread_attr_destroy(&at);
    if (e) { fprintf(stderr, "pthread_create failed: %d\n", e); abort(); }
    return c;
}

// ------------------------------------------------------------------ crash capture
static void on_signal(int sig, siginfo_t *si, void *) {
    uintptr_t a = (uintptr_t)si->si_addr;
    if ((sig == SIGSEGV || sig == SIGBUS) && a >= STACK_BASE && a < STACK_BASE + MAXT * STACK_SZ && ((a - STACK_BASE) % STACK_SZ) < 4096)
        harness_limit("simulated thread stack exhausted (instrumented symmetric transfer nests frames, DESIGN 2.2)");
    const char *n = sig == SIGSEGV ? "crash.SIGSEGV" : sig == SIGBUS ? "crash.SIGBUS" : sig == SIGFPE ? "crash.SIGFPE" : sig == SIGILL ? "crash.SIGILL" : "crash.SIGABRT";
    violation(n, "signal %d at address %p", sig, si->si_addr);
}
static void on_terminate() { violation("crash.terminate", "std::terminate called"); }
void set_term(void (*)());

void sched_init() {
    pthread_key_create(&exit_key, key_dtor);
    void *p = mmap((void *)STACK_BASE, MAXT * STACK_SZ, PROT_READ | PROT_WRITE, MAP_PRIVATE | MAP_ANONYMOUS | MAP_FIXED_NOREPLACE | MAP_NORESERVE, -1, 0);
    if (p != (void *)STACK_BASE) { perror("mmap stacks"); abort(); }
    for (int i = 0; i < MAXT; i++) mprotect((void *)(STACK_BASE + i * STACK_SZ), 4096, PROT_NONE);
    static char main_alt[65536]; stack_t ss; ss.ss_sp = main_alt; ss.ss_size = sizeof main_alt; ss.ss_flags = 0; sigaltstack(&ss, nullptr);
    struct sigaction sa; memset(&sa, 0, sizeof sa); sa.sa_sigaction = on_signal; sa.sa_flags = SA_SIGINFO | SA_ONSTACK; sigemptyset(&sa.sa_mask);
    sigaction(SIGSEGV, &sa, nullptr); sigaction(SIGBUS, &sa, nullptr); sigaction(SIGFPE, &sa, nullptr); sigaction(SIGILL, &sa, nullptr); sigaction(SIGABRT, &sa, nullptr);
    set_term(on_terminate);
}

// ------------------------------------------------------------------ one run
static void scenario_entry() { dsim_scenario(); }

void run_setup(u64 seed) {
    G.gen++; if (G.gen == 0) G.gen = 1;
    G.nth = 0; G.cur = nullptr; G.steps = G.switches = G.decisions = 0; G.now = 0; G.seed = seed;
    rng_seed(G.rng_plan, seed, 1); rng_seed(G.rng_dec, seed, 2);
    G.devs_pos = 0; G.devs_out.clear(); G.plan_pos = 0; G.plan_out.clear(); G.plan_bound.clear();
    G.fair = false; memset(G.fault_fired, 0, sizeof G.fault_fired);
    G.fp = 0xcbf29ce484222325ull; G.interactions = 0; G.races = 0; G.race_pc_a = G.race_pc_b = 0;
    memset(G.cells, 0, sizeof G.cells); memset(G.chan, 0, sizeof G.chan); G.sc_fence.clear();
    G.heap_fill = 0xCD; G.soft = false; G.note[0] = 0; G.note_len = 0; G.cfg = dsim::Config(); G.deadlock_cb = nullptr; G.n_end_cb = 0; G.done = 0;
    obj_next = 1; ring_n = 0;
    if (!G.replay_dec) {
        G.faults_on = (xnext(G.rng_dec) & 1) != 0;
        u32 s = rnd_below(G.rng_dec, 10);
        if (s < 4) { G.strategy = S_RANDOM; static const double ps[] = {0.02, 0.1, 0.3, 0.6}; G.p_switch = ps[rnd_below(G.rng_dec, 4)]; }
        else if (s < 8) { G.strategy = S_PCT; G.pct_depth = 1 + rnd_below(G.rng_dec, 3); static const u32 hz[] = {40, 120, 400, 1500}; u32 h = hz[rnd_below(G.rng_dec, 4)]; for (int k = 0; k < 4; k++) G.pct_points[k] = 1 + rnd_below(G.rng_dec, h); G.prio_low = 900; }
        else { G.strategy = S_RR; G.rr_quantum = 1 + rnd_below(G.rng_dec, 12); }
        G.plain_points = rnd_below(G.rng_dec, 4) == 0;
        { static const double sp[] = {0, 0, 0, 0.0015, 0.004, 0.01}; G.starve_p = sp[rnd_below(G.rng_dec, 6)]; }
    }
    hb_reset(); heap_reset(); sync_reset();
}

// returns status; fills nothing else (fields live in G)
int run_one(u64 seed) {
    run_setup(seed);
    G.run_active = true;
    SimThread *t0 = spawn(nullptr, nullptr, scenario_entry);
    G.cur = t0;
    unpark(t0);
    main_wait_done();
    G.run_active = false;
    for (int i = 0; i < G.nth; i++) pthread_join(G.th[i].pt, nullptr);
    for (int i = 0; i < G.n_end_cb; i++) G.end_cb[i]();
    if (G.soft && !G.warmup) {
        if (!G.batch_mode) violation(G.soft_cls, "%s", G.soft_msg);
        static int soft_printed; G.soft_total++;
        if (soft_printed++ >= 3) return ST_VIOLATION;
        tl_in_rt++;
        oprintf("{\"t\":\"V\",\"soft\":1,\"class\":"); ojson_str(G.soft_cls); oprintf(",\"msg\":"); ojson_str(G.soft_msg); oprintf(","); emit_run_fields(); oprintf("}\n");
        tl_in_rt--;
        return ST_VIOLATION;
    }
    if (G.cfg.leak_check && !G.warmup && heap_live_blocks()) heap_report_leaks_and_fail();
    return ST_OK;
}

} // namespace rt

// ====================================================================== dsim API
namespace dsim {
using namespace rt;

unsigned choose(unsigned n) {
    if (n <= 1) { return 0; }
    u32 v;
    if (G.replay_plan) { v = G.plan_pos < G.plan_in.n ? G.plan_in[G.plan_pos] % n : 0; G.plan_pos++; }
    else v = rnd_below(G.rng_plan, n);
    tl_in_rt++; G.plan_out.push(v); G.plan_bound.push(n); tl_in_rt--;
    return v;
}
unsigned choose_w(unsigned n, unsigned zero_pct) {
    // one draw, so the shrinker sees one value: [0, 100*n) folded
    if (n <= 1) return 0;
    unsigned r = choose(1000);
    if (r < zero_pct * 10) return 0;
    return 1 + (r % (n - 1));
}
void plan_note(const char *fmt, ...) {
    va_list ap; va_start(ap, fmt);
    if (G.note_len < sizeof G.note - 1) { int k = vsnprintf(G.note + G.note_len, sizeof G.note - G.note_len, fmt, ap); if (k > 0) G.note_len += (size_t)k < sizeof G.note - G.note_len ? (size_t)k : sizeof G.note - G.note_len - 1; }
    va_end(ap);
}
void fail(const char *oracle, const char *fmt, ...) {
    static char msg[4096]; va_list ap; va_start(ap, fmt); vsnprintf(msg, sizeof msg, fmt, ap); va_end(ap);
    violation(oracle, "%s", msg);
}
void soft_fail(const char *oracle, const char *fmt, ...) {
    if (G.soft) return;
    G.soft = true; snprintf(G.soft_cls, sizeof G.soft_cls, "%s", oracle);
    va_list ap; va_start(ap, fmt); vsnprintf(G.soft_msg, sizeof G.soft_msg, fmt, ap); va_end(ap);
}
extern "C" void dsim_skip_exit(const char *why);
void skip(const char *why) { dsim_skip_exit(why); __builtin_unreachable(); }
void event(const char *name, long a, long b) { SimThread *t = simself(); log_named(t, name, a, b); }
long cell_get(int i) { return G.cells[i]; }
void cell_set(int i, long v) { G.cells[i] = v; }
long cell_add(int i, long d) { return G.cells[i] += d; }
long cell_xchg(int i, long v) { long o = G.cells[i]; G.cells[i] = v; return o; }
void wait_cell(int i, long atleast) {
    SimThread *t = simself(); if (!t) return;
    while (G.cells[i] < atleast) block(t, B_CELL, (uintptr_t)i, atleast, false, 0);
}
void hb_release(int ch) { SimThread *t = simself(); if (!t) return; G.chan[ch & 63].join(t->vc); hb_tick(t); }
void hb_acquire(int ch) { SimThread *t = simself(); if (!t) return; t->vc.join(G.chan[ch & 63]); }
void yield() { SimThread *t = simself(); if (t) sched_point(t, SP_USER); }
int self() { SimThread *t = simself(); return t ? t->id : -1; }
long now_ns() { return G.now; }
long step() { return (long)G.steps; }
void advance_time(long ns) { G.now += ns; }
Config &config() { return G.cfg; }
int tier() { return G.tier; }
bool faults_enabled() { return G.faults_on; }
void on_deadlock(void (*fn)()) { G.deadlock_cb = fn; }
void at_end(void (*fn)()) { if (G.n_end_cb < 8) G.end_cb[G.n_end_cb++] = fn; }
unsigned long live_blocks() { return heap_live_blocks(); }
unsigned long live_bytes() { return heap_live_bytes(); }
unsigned long total_allocs() { return heap_total_allocs(); }
unsigned long thread_blocks() { SimThread *t = simself(); return t ? t->blocks : 0; }
unsigned long thread_allocs() { SimThread *t = simself(); return t ? t->allocs : 0; }
unsigned long thread_allocs_excluding() { SimThread *t = simself(); return t ? t->allocs_excl : 0; }
} // namespace dsim
