// rt_main.cpp — worker process: batch mode (many seeds), single-run mode (replay / minimiser candidates).
#include <poll.h>
#include <time.h>
#include "rt_core.h"
#include <algorithm>
#include <stdio.h>
#include <sys/personality.h>
#include <time.h>
#include <unistd.h>

namespace rt {
void oprintf(const char *fmt, ...);
void oflush_pub();
void emit_run_fields();
void sched_init();
int run_one(u64 seed);
void rng_seed(u64 *s, u64 seed, u64 stream);
}
using namespace rt;

static void emit_summary();
extern "C" void dsim_skip_exit(const char *why) {
    tl_in_rt++;
    oprintf("{\"t\":\"K\",\"why\":\"%s\",\"seed\":%llu}\n", why, (unsigned long long)G.seed); emit_summary(); oflush_pub();
    _exit(ST_SKIP);
}


struct Batch {
    bool active; double t0; u64 start, cur;
    u64 runs, steps, switches, inter_runs, races, decisions; long vtime;
    u64 fired[F_NKINDS], fired_runs[F_NKINDS], strat[4], faults_on_runs, thr_hist[MAXT + 1];
    MVec<u64> fps; u64 race_a, race_b;
};
static Batch B;
static double now_s() { struct timespec ts; clock_gettime(CLOCK_MONOTONIC, &ts); return ts.tv_sec + ts.tv_nsec * 1e-9; }
static void account_run() {
    B.runs++; B.steps += G.steps; B.switches += G.switches; B.vtime += G.now; B.races += G.races; B.decisions += G.decisions;
    if (G.races && !B.race_a) { B.race_a = G.race_pc_a; B.race_b = G.race_pc_b; }
    for (int k = 0; k < F_NKINDS; k++) { B.fired[k] += G.fault_fired[k]; if (G.fault_fired[k]) B.fired_runs[k]++; }
    B.strat[G.strategy & 3]++; if (G.faults_on) B.faults_on_runs++; B.thr_hist[G.nth]++;
    if (G.interactions) { B.inter_runs++; B.fps.push(G.fp); }
}
// also called when the process dies on a violation, so that the runs before it are counted
static void emit_summary() {
    if (!B.active) return;
    std::sort(B.fps.begin(), B.fps.end());
    size_t nd = std::unique(B.fps.begin(), B.fps.end()) - B.fps.begin();
    oprintf("{\"t\":\"S\",\"soft_failures\":%llu,\"first\":%llu,\"next\":%llu,\"runs\":%llu,\"steps\":%llu,\"switches\":%llu,\"vtime_ns\":%ld,\"nontrivial_runs\":%llu,\"races_seen\":%llu,\"race_pcs\":[\"%llx\",\"%llx\"],\"decisions\":%llu,\"faults_on_runs\":%llu,\"wall_s\":%.3f,",
            (unsigned long long)G.soft_total, (unsigned long long)B.start, (unsigned long long)B.cur, (unsigned long long)B.runs, (unsigned long long)B.steps, (unsigned long long)B.switches, B.vtime, (unsigned long long)B.inter_runs,
            (unsigned long long)B.races, (unsigned long long)B.race_a, (unsigned long long)B.race_b, (unsigned long long)B.decisions, (unsigned long long)B.faults_on_runs, now_s() - B.t0);
    oprintf("\"fired\":{"); for (int k = 0; k < F_NKINDS; k++) oprintf("%s\"%s\":%llu", k ? "," : "", fault_names[k], (unsigned long long)B.fired[k]);
    oprintf("},\"fired_runs\":{"); for (int k = 0; k < F_NKINDS; k++) oprintf("%s\"%s\":%llu", k ? "," : "", fault_names[k], (unsigned long long)B.fired_runs[k]);
    oprintf("},\"strategies\":{\"random\":%llu,\"pct\":%llu,\"round_robin\":%llu},\"threads_hist\":[", (unsigned long long)B.strat[0], (unsigned long long)B.strat[1], (unsigned long long)B.strat[2]);
    for (int k = 0; k <= MAXT; k++) oprintf("%s%llu", k ? "," : "", (unsigned long long)B.thr_hist[k]);
    oprintf("],\"fps\":\"");
    for (size_t i = 0; i < nd; i++) oprintf("%016llx", (unsigned long long)B.fps[i]);
    oprintf("\"}\n");
    probes_dump();
}
namespace rt { extern void (*on_die)(); }

// Real-time watchdog (an ordinary OS thread, never a simulated one; it also keeps __libc_single_threaded false from the start).
// The simulator only gets control at synchronisation operations: a simulated thread caught in a loop that performs none
// (a list walk that never advances, a spin on a plain variable) would hang the worker for ever. If the process burns CPU time
// while neither the run nor its step counter moves, the run is reported as a violation of class "spin.no_scheduling_point"
// with the call stack of the thread that is running. CPU time, not wall time: a descheduled or stopped process never trips it.
static double cpu_s() { struct timespec ts; clock_gettime(CLOCK_PROCESS_CPUTIME_ID, &ts); return ts.tv_sec + ts.tv_nsec * 1e-9; }
static void *watchdog_thread(void *) {
    unsigned long long last_run = ~0ull, last_steps = ~0ull, last_seq = ~0ull; double since = cpu_s();
    for (;;) {
        poll(nullptr, 0, 500);
        unsigned long long r = G.seed, st = G.steps, sq = G.gen;
        if (r != last_run || st != last_steps || sq != last_seq) { last_run = r; last_steps = st; last_seq = sq; since = cpu_s(); continue; }
        if (G.run_active && G.cur && cpu_s() - since > 3.0)
            violation("spin.no_scheduling_point", "simulated thread T%d has been running for more than 3 s of CPU time without reaching a synchronisation operation (a loop that performs no atomic, lock or blocking operation and never ends)", G.cur->id);
    }
    return nullptr;
}

static void parse_u32_list(const char *s, MVec<u32> &out) {
    while (*s) { char *e; unsigned long v = strtoul(s, &e, 10); if (e == s) break; out.push((u32)v); s = e; if (*s == ',') s++; }
}
static void parse_dev_list(const char *s, MVec<Dev> &out) {
    while (*s) { char *e; unsigned long i = strtoul(s, &e, 10); if (e == s || *e != ':') break; s = e + 1; unsigned long v = strtoul(s, &e, 10); out.push({(u32)i, (u32)v}); s = e; if (*s == ',') s++; }
}
int main(int argc, char **argv) {
    // fixed address-space layout: re-exec once with ASLR off
    if (!getenv("DSIM_NOASLR")) {
        int p = personality(0xffffffff);
        if (p != -1 && !(p & ADDR_NO_RANDOMIZE) && personality(p | ADDR_NO_RANDOMIZE) != -1) { setenv("DSIM_NOASLR", "1", 1); execv("/proc/self/exe", argv); }
    }
    u64 start = 1, count = 1; bool one = false; bool fplist = false; double budget_s = 0; bool samples = true;
    u64 decseed = 0; bool have_decseed = false;
    for (int i = 1; i < argc; i++) {
        if (!strcmp(argv[i], "--batch") && i + 2 < argc) { start = strtoull(argv[i + 1], 0, 10); count = strtoull(argv[i + 2], 0, 10); i += 2; }
        else if (!strcmp(argv[i], "--budget") && i + 1 < argc) budget_s = atof(argv[++i]);
        else if (!strcmp(argv[i], "--one")) one = true;
        else if (!strcmp(argv[i], "--seed") && i + 1 < argc) start = strtoull(argv[++i], 0, 10);
        else if (!strcmp(argv[i], "--plan") && i + 1 < argc) { G.replay_plan = true; parse_u32_list(argv[++i], G.plan_in); }
        else if (!strcmp(argv[i], "--dec") && i + 1 < argc) { G.replay_dec = true; parse_dev_list(argv[++i], G.devs_in); }
        else if (!strcmp(argv[i], "--decseed") && i + 1 < argc) { decseed = strtoull(argv[++i], 0, 10); have_decseed = true; }
        else if (!strcmp(argv[i], "--faults") && i + 1 < argc) G.faults_on = atoi(argv[++i]) != 0;
        else if (!strcmp(argv[i], "--pp") && i + 1 < argc) G.plain_points = atoi(argv[++i]) != 0;
        else if (!strcmp(argv[i], "--tier") && i + 1 < argc) G.tier = !strcmp(argv[++i], "thorough") ? 1 : 0;
        else if (!strcmp(argv[i], "--nosamples")) samples = false;
        else if (!strcmp(argv[i], "--fplist")) fplist = true;
        else { fprintf(stderr, "unknown argument %s\n", argv[i]); return 2; }
    }
    (void)have_decseed; (void)decseed;
    pthread_t dt; pthread_create(&dt, nullptr, watchdog_thread, nullptr);   // __libc_single_threaded = false from the start
    heap_init(); sched_init(); rt::on_die = emit_summary;
    {   // pc ranges of functions whose allocations are accounted separately (thread_allocs_excluding): <exe>.excl, written by bin/check
        char path[600]; ssize_t n = readlink("/proc/self/exe", path, 500);
        if (n > 0) { strcpy(path + n, ".excl"); if (FILE *f = fopen(path, "r")) { unsigned long lo, hi; while (fscanf(f, "%lx %lx", &lo, &hi) == 2) dsim::exclude_alloc_fn((const void *)lo, (const void *)hi); fclose(f); } }
    }

    // warm-up run: absorbs lazily initialised statics on the ordinary heap; result discarded
    {
        bool rp = G.replay_plan, rd = G.replay_dec, fo = G.faults_on, pp = G.plain_points; G.plain_points = false;
        G.replay_plan = false; G.replay_dec = true; G.warmup = true;   // default schedule: no pre-emption, no faults
        size_t nd = G.devs_in.n; G.devs_in.n = 0;
        run_one(0x5eedull);
        G.devs_in.n = nd; G.warmup = false; G.replay_plan = rp; G.replay_dec = rd; G.faults_on = fo; G.plain_points = pp;
    }
    if (one) {
        bool fo = G.faults_on;
        // run_setup draws faults_on only when recording; keep the caller's value under replay
        run_one(start);
        (void)fo;
        oprintf("{\"t\":\"R\",\"status\":\"ok\","); emit_run_fields(); oprintf("}\n"); oflush_pub();
        return 0;
    }
    // batch
    B.t0 = now_s(); B.start = start; B.active = true; G.batch_mode = true;
    u64 s;
    for (s = start; s < start + count; s++) {
        B.cur = s;
        run_one(s);
        account_run();
        if (fplist) oprintf("F %llu %016llx %llu\n", (unsigned long long)s, (unsigned long long)G.fp, (unsigned long long)G.steps);
        if (samples && B.runs <= 2) { oprintf("{\"t\":\"R\",\"status\":\"ok\","); emit_run_fields(); oprintf("}\n"); }
        if (budget_s > 0 && (B.runs & 15) == 0 && now_s() - B.t0 > budget_s) { s++; break; }
    }
    B.cur = s;
    emit_summary();
    oflush_pub();
    return 0;
}
