// rt_core.h — internal declarations shared by the runtime translation units (all uninstrumented).
#pragma once
#include "dsim.h"
#include <pthread.h>
#include <stdint.h>
#include <stddef.h>
#include <stdlib.h>
#include <string.h>

typedef uint8_t u8; typedef uint32_t u32; typedef uint64_t u64;

namespace rt {

constexpr int MAXT = 16;
constexpr uintptr_t HEAP_BASE  = 0x200000000000ull;
constexpr size_t    HEAP_SIZE  = 512ull << 20;
constexpr uintptr_t STACK_BASE = 0x210000000000ull;
constexpr size_t    STACK_SZ   = 8ull << 20;      // per simulated thread, incl. guard page

// malloc-backed vector usable inside the runtime (global operator new is replaced)
template <typename T> struct MVec {
    T *d = nullptr; size_t n = 0, cap = 0;
    void push(const T &x) { if (n == cap) { cap = cap ? cap * 2 : 16; d = (T *)realloc(d, cap * sizeof(T)); if (!d) abort(); } d[n++] = x; }
    void clear() { n = 0; }
    T &operator[](size_t i) { return d[i]; }
    const T &operator[](size_t i) const { return d[i]; }
    T *begin() { return d; } T *end() { return d + n; }
};

struct VC {
    u32 c[MAXT];
    void clear() { memset(c, 0, sizeof c); }
    void join(const VC &o) { for (int i = 0; i < MAXT; i++) if (o.c[i] > c[i]) c[i] = o.c[i]; }
};

enum TState { T_FREE = 0, T_RUNNABLE, T_BLOCKED, T_FINISHED };
enum BKind { B_NONE = 0, B_MUTEX, B_CV, B_FUTEX, B_JOIN, B_SLEEP, B_CELL, B_GUARD, B_STARVE };

constexpr int MAXDEPTH = 4096;

struct SimThread {
    int id;
    pthread_t pt;
    volatile int go;
    TState st;
    BKind bk; uintptr_t bobj; long bval;
    bool timed; long deadline; bool signaled;
    bool detached, joined, started;
    VC vc, acq_pending, rel_fence; bool has_rel_fence;
    void *tstate;                     // std::thread::_State*
    void (*entry)();                  // T0 only
    u32 stack_node; int depth; u32 frames[MAXDEPTH];
    u32 prio; int yield_streak; int cas_fail_streak; bool yielding;
    unsigned long allocs, allocs_excl;
    uintptr_t stack_lo, stack_hi, saved_sp;
    unsigned run_streak;
    unsigned long blocks;          // number of times this thread had to park in a blocking primitive
};

enum Status { ST_OK = 0, ST_VIOLATION = 3, ST_LIMIT = 4, ST_SKIP = 5 };

// fault kinds
enum Fault { F_PREEMPT = 0, F_CAS_WEAK, F_SPUR_CV, F_SPUR_FUTEX, F_STALL, F_CLOCK_ADV, F_STARVE, F_NKINDS };
extern const char *const fault_names[F_NKINDS];

struct Dev { u32 idx, val; };

struct Global {
    SimThread th[MAXT];
    int nth;
    SimThread *cur;
    bool run_active;
    bool warmup;
    u32 gen;
    u64 steps, switches, decisions;
    long now;                         // virtual ns since run start
    u64 seed;
    u64 rng_plan[2], rng_dec[2];
    bool replay_dec;                  // decisions come from devs
    bool replay_plan;
    MVec<Dev> devs_in; size_t devs_pos;
    MVec<Dev> devs_out;
    MVec<u32> plan_in; size_t plan_pos;
    MVec<u32> plan_out; MVec<u32> plan_bound;
    bool faults_on;
    double starve_p;                  // per-run rate of the starvation fault (0 in most runs)
    bool plain_points;                // this run also has scheduling points before plain accesses to memory another thread touched
    int strategy; double p_switch; int pct_depth; u64 pct_points[4]; u32 rr_quantum; u32 prio_low;
    bool fair;
    u64 fault_fired[F_NKINDS];
    u64 fp;                           // event-log fingerprint
    u64 interactions;                 // ops on an object last touched by another thread
    u64 races; u64 race_pc_a, race_pc_b;
    long cells[dsim::NCELLS];
    VC chan[64];
    VC sc_fence;
    char note[4096]; size_t note_len;
    dsim::Config cfg;
    int tier;
    void (*deadlock_cb)();
    void (*end_cb[8])(); int n_end_cb;
    volatile int done;
    int max_threads_seen;
    bool soft; char soft_cls[160]; char soft_msg[1024];   // first soft failure of the run (run continues, reported at its end)
    bool batch_mode; u64 soft_total;
    int heap_fill;                    // byte written into fresh heap blocks (default 0xCD); scenarios may vary it to expose reads of uninitialised memory
};
extern Global G;
extern __thread SimThread *tl_self;
extern __thread int tl_in_rt;

struct RtScope { RtScope() { tl_in_rt++; } ~RtScope() { tl_in_rt--; } };

inline SimThread *simself() { SimThread *t = tl_self; return (t && G.run_active) ? t : nullptr; }

// scheduling
enum SP { SP_ATOMIC_PRE = 1, SP_ATOMIC_POST, SP_MUTEX, SP_CV, SP_FUTEX, SP_THREAD, SP_YIELD, SP_SLEEP, SP_USER, SP_GUARD, SP_PLAIN };
void sched_point(SimThread *t, int kind);
void block(SimThread *t, BKind k, uintptr_t obj, long val, bool timed, long deadline);
bool coin(int fault_kind, double p);          // decision: does this fault fire here?
u32 decide_pick(u32 n);                       // decision: uniform pick (notify_one target …)
void log_event(SimThread *t, u32 kind, u64 obj, u64 outcome);
u32 obj_id(uintptr_t addr);
void touch_obj(SimThread *t, uintptr_t addr); // interaction accounting
[[noreturn]] void violation(const char *cls, const char *fmt, ...) __attribute__((format(printf, 2, 3)));
[[noreturn]] void harness_limit(const char *what);
void finish_thread(SimThread *t);

// hb.cpp
void hb_reset();
void hb_access(SimThread *t, uintptr_t a, unsigned sz, bool wr, bool atomic, uintptr_t pc);
void hb_clear_range(uintptr_t a, size_t n);
void hb_atomic_load(SimThread *t, uintptr_t a, int mo);
void hb_atomic_store(SimThread *t, uintptr_t a, int mo);
void hb_atomic_rmw(SimThread *t, uintptr_t a, int mo);
void hb_fence(SimThread *t, int mo);
void hb_tick(SimThread *t);
u32 trie_child(u32 parent, u32 pc);
size_t format_stack(char *buf, size_t cap, u32 node, uintptr_t leaf_pc);
void probe_hit(uintptr_t pc);
void probes_dump();

// heap.cpp
void heap_init();
void heap_reset();
void *heap_alloc(size_t n, size_t al);
void heap_free(void *p);
bool heap_owns(const void *p);
void heap_check_access(SimThread *t, uintptr_t a, unsigned sz, bool wr, uintptr_t pc);
unsigned long heap_live_blocks(); unsigned long heap_live_bytes(); unsigned long heap_total_allocs();
void heap_report_leaks_and_fail();
bool stack_in_exclusion(SimThread *t);
bool hb_shared_granule(SimThread *t, uintptr_t a);

// sync.cpp
void sync_reset();
bool mutex_is_free(uintptr_t m);
bool guard_is_free(uintptr_t g);

} // namespace rt
