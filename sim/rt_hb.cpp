// rt_hb.cpp — happens-before engine (DESIGN §3): vector clocks, release sequences, fences,
// shadow memory for plain accesses, shadow call stacks, reach probes.
#include "rt_core.h"
#include <stdio.h>

namespace rt {
void oprintf(const char *fmt, ...);

// ------------------------------------------------------------------ shadow call-stack trie
struct TrieNode { u32 parent, pc; };
constexpr u32 TRIE_BITS = 18;
static TrieNode *tnodes; static u32 tn_count = 1;     // node 0 = root
struct TrieKey { u64 key; u32 node; };
static TrieKey *tkeys;
u32 trie_child(u32 parent, u32 pc) {
    u64 k = ((u64)parent << 32) | pc;
    u64 h = (k * 0x9E3779B97F4A7C15ull) >> (64 - TRIE_BITS);
    for (u32 i = 0; i < (1u << TRIE_BITS); i++) {
        TrieKey &e = tkeys[(h + i) & ((1u << TRIE_BITS) - 1)];
        if (e.node == 0) {
            if (tn_count >= (1u << TRIE_BITS) - 16) return parent;   // table full: stop deepening
            e.key = k; e.node = tn_count; tnodes[tn_count] = {parent, pc}; return tn_count++;
        }
        if (e.key == k) return e.node;
    }
    return parent;
}
size_t format_stack(char *buf, size_t cap, u32 node, uintptr_t leaf_pc) {
    size_t o = 0; buf[0] = 0;
    if (leaf_pc) o += snprintf(buf + o, cap - o, "%lx", (unsigned long)leaf_pc);
    int guard = 0;
    while (node && o + 12 < cap && guard++ < 48) { o += snprintf(buf + o, cap - o, "%s%x", o ? " " : "", tnodes[node].pc); node = tnodes[node].parent; }
    return o;
}
bool stack_contains_pc_range(u32 node, uintptr_t lo, uintptr_t hi) {
    int guard = 0;
    while (node && guard++ < 256) { u32 pc = tnodes[node].pc; if (pc >= lo && pc < hi) return true; node = tnodes[node].parent; }
    return false;
}

// ------------------------------------------------------------------ probes (function entry counts)
struct Probe { u64 pc; u64 cnt; };
static Probe probes[1 << 14];
void probe_hit(uintptr_t pc) {
    u64 h = (pc * 0x9E3779B97F4A7C15ull) >> 50;
    for (int i = 0; i < 32; i++) { Probe &p = probes[(h + i) & ((1 << 14) - 1)]; if (p.pc == pc) { p.cnt++; return; } if (!p.pc) { p.pc = pc; p.cnt = 1; return; } }
}
void probes_dump() {
    oprintf("{\"t\":\"P\",\"probes\":{");
    bool first = true;
    for (auto &p : probes) if (p.pc) { oprintf("%s\"%llx\":%llu", first ? "" : ",", (unsigned long long)p.pc, (unsigned long long)p.cnt); first = false; }
    oprintf("}}\n");
}

// ------------------------------------------------------------------ atomic locations
struct AtomLoc { u64 key; u32 gen; VC sync; };
constexpr u32 AT_BITS = 13;
static AtomLoc *atoms;
static AtomLoc *atom_find(uintptr_t a) {
    u64 h = (a * 0x9E3779B97F4A7C15ull) >> (64 - AT_BITS);
    for (u32 i = 0; i < 128; i++) {
        AtomLoc &e = atoms[(h + i) & ((1u << AT_BITS) - 1)];
        if (e.gen != G.gen) { e.key = a; e.gen = G.gen; e.sync.clear(); return &e; }
        if (e.key == a) return &e;
    }
    harness_limit("atomic location table full");
}
static inline bool is_acq(int mo) { return mo == 1 || mo == 2 || mo == 4 || mo == 5; }
static inline bool is_rel(int mo) { return mo == 3 || mo == 4 || mo == 5; }
void hb_tick(SimThread *t) { t->vc.c[t->id]++; }
void hb_atomic_load(SimThread *t, uintptr_t a, int mo) {
    AtomLoc *L = atom_find(a);
    if (is_acq(mo)) t->vc.join(L->sync); else t->acq_pending.join(L->sync);
}
void hb_atomic_store(SimThread *t, uintptr_t a, int mo) {
    AtomLoc *L = atom_find(a);
    if (is_rel(mo)) { L->sync = t->vc; hb_tick(t); }
    else if (t->has_rel_fence) L->sync = t->rel_fence;
    else L->sync.clear();
}
void hb_atomic_rmw(SimThread *t, uintptr_t a, int mo) {
    AtomLoc *L = atom_find(a);
    if (is_acq(mo)) t->vc.join(L->sync); else t->acq_pending.join(L->sync);
    if (is_rel(mo)) { L->sync.join(t->vc); hb_tick(t); }
    else if (t->has_rel_fence) L->sync.join(t->rel_fence);
}
void hb_fence(SimThread *t, int mo) {
    if (is_acq(mo)) t->vc.join(t->acq_pending);
    if (mo == 5) { t->vc.join(G.sc_fence); G.sc_fence.join(t->vc); }
    if (is_rel(mo)) { t->rel_fence = t->vc; t->has_rel_fence = true; hb_tick(t); }
}

// ------------------------------------------------------------------ shadow memory for plain accesses
struct Slot { u32 clk; u32 stack; u32 pc; u8 tid; u8 off; u8 sz; u8 fl; };  // fl: 1 write, 2 atomic, 4 valid
struct Gran { u64 key; u32 gen; u32 rr; Slot s[4]; };
constexpr u32 SH_BITS = 17;
static Gran *shadow; static u64 shadow_dropped;
static Gran *gran_find(u64 key, bool insert) {
    u64 h = (key * 0x9E3779B97F4A7C15ull) >> (64 - SH_BITS);
    for (u32 i = 0; i < 32; i++) {
        Gran &g = shadow[(h + i) & ((1u << SH_BITS) - 1)];
        if (g.gen != G.gen) { if (!insert) return nullptr; g.key = key; g.gen = G.gen; g.rr = 0; memset(g.s, 0, sizeof g.s); return &g; }
        if (g.key == key) return &g;
    }
    shadow_dropped++;
    return nullptr;
}
static void report_race(SimThread *t, uintptr_t a, bool wr, bool atomic, uintptr_t pc, const Slot &s) {
    if (G.warmup) return;       // the warm-up run uses the ordinary heap: address reuse would leave stale shadow
    G.races++;
    u64 pa = pc, pb = s.pc; if (pa > pb) { u64 x = pa; pa = pb; pb = x; }
    if (G.races == 1) { G.race_pc_a = pa; G.race_pc_b = pb; }
    static int survey = -1; if (survey < 0) survey = getenv("DSIM_RACE_SURVEY") ? 1 : 0;
    if (survey) {       // exploratory (bin/race_survey): list every distinct racing pair of any scenario, never a verdict
        static u64 seen[256][2]; static int nseen;
        for (int i = 0; i < nseen; i++) if (seen[i][0] == pa && seen[i][1] == pb) return;
        if (nseen < 256) { seen[nseen][0] = pa; seen[nseen][1] = pb; nseen++; tl_in_rt++; fprintf(stderr, "RACE %llx %llx seed=%llu\n", (unsigned long long)pa, (unsigned long long)pb, (unsigned long long)G.seed); tl_in_rt--; }
        return;
    }
    static int force = -1; if (force < 0) force = getenv("DSIM_FORCE_RACES") ? 1 : 0;      // debugging aid for a pair listed by bin/race_survey: full stacks
    if (!G.cfg.race_is_violation && !force) return;
    static char s1[2048], s2[2048], cls[96];
    format_stack(s1, sizeof s1, t->stack_node, pc);
    format_stack(s2, sizeof s2, s.stack, s.pc);
    snprintf(cls, sizeof cls, "race:%llx:%llx", (unsigned long long)pa, (unsigned long long)pb);
    violation(cls, "data race on %p: T%d %s%s [stack1 %s] vs earlier T%d %s%s [stack2 %s] (no happens-before)", (void *)a, t->id,
              atomic ? "atomic " : "", wr ? "write" : "read", s1, (int)s.tid, (s.fl & 2) ? "atomic " : "", (s.fl & 1) ? "write" : "read", s2);
}
static void access_gran(SimThread *t, uintptr_t a, unsigned off, unsigned sz, bool wr, bool atomic, uintptr_t pc) {
    Gran *g = gran_find(a >> 3, true);
    if (!g) return;
    u8 fl = (wr ? 1 : 0) | (atomic ? 2 : 0) | 4;
    u32 clk = t->vc.c[t->id];
    int same = -1, empty = -1;
    for (int i = 0; i < 4; i++) {
        Slot &s = g->s[i];
        if (!(s.fl & 4)) { if (empty < 0) empty = i; continue; }
        if (s.tid == t->id) { if (s.off == off && s.sz == sz && (s.fl & 3) == (fl & 3)) same = i; continue; }
        if (s.off + s.sz <= off || off + sz <= s.off) continue;       // disjoint bytes
        if (!wr && !(s.fl & 1)) continue;                               // read/read
        if (atomic && (s.fl & 2)) continue;                             // atomic/atomic
        if (s.clk <= t->vc.c[s.tid]) continue;                          // ordered
        report_race(t, a, wr, atomic, pc, s);
    }
    int w = same >= 0 ? same : empty >= 0 ? empty : (int)(g->rr++ & 3);
    // prefer evicting an entry of the same thread that is covered (read by a later write etc.)
    Slot &d = g->s[w];
    d.clk = clk; d.stack = t->stack_node; d.pc = (u32)pc; d.tid = (u8)t->id; d.off = (u8)off; d.sz = (u8)sz; d.fl = fl;
}
void hb_access(SimThread *t, uintptr_t a, unsigned sz, bool wr, bool atomic, uintptr_t pc) {
    while (sz) {
        unsigned off = a & 7, n = 8 - off; if (n > sz) n = sz;
        access_gran(t, a, off, n, wr, atomic, pc);
        a += n; sz -= n;
    }
}
bool hb_shared_granule(SimThread *t, uintptr_t a) {
    Gran *g = gran_find(a >> 3, false);
    if (!g) return false;
    for (int i = 0; i < 4; i++) if ((g->s[i].fl & 4) && g->s[i].tid != t->id) return true;
    return false;
}
void hb_clear_range(uintptr_t a, size_t n) {
    uintptr_t lo = a >> 3, hi = (a + n + 7) >> 3;
    for (uintptr_t k = lo; k < hi; k++) { Gran *g = gran_find(k, false); if (g) memset(g->s, 0, sizeof g->s); }
}

void hb_reset() {
    if (!shadow) {
        shadow = (Gran *)calloc(1u << SH_BITS, sizeof(Gran));
        atoms = (AtomLoc *)calloc(1u << AT_BITS, sizeof(AtomLoc));
        tnodes = (TrieNode *)calloc(1u << TRIE_BITS, sizeof(TrieNode));
        tkeys = (TrieKey *)calloc(1u << TRIE_BITS, sizeof(TrieKey));
        if (!shadow || !atoms || !tnodes || !tkeys) abort();
    }
    if (G.gen == 1) { memset(shadow, 0, sizeof(Gran) << SH_BITS); memset(atoms, 0, sizeof(AtomLoc) << AT_BITS); }
}

} // namespace rt

// ====================================================================== TSan ABI: plain accesses, function entry/exit
using namespace rt;
#define PC() ((uintptr_t)__builtin_return_address(0))
static inline void plain(void *a, unsigned sz, bool wr, uintptr_t pc) {
    SimThread *t = simself(); if (!t) return;
    uintptr_t x = (uintptr_t)a;
    if (x >= HEAP_BASE && x < HEAP_BASE + HEAP_SIZE) heap_check_access(t, x, sz, wr, pc);
    else if (x >= STACK_BASE && x < STACK_BASE + MAXT * STACK_SZ) {
        int owner = (int)((x - STACK_BASE) / STACK_SZ);
        if (owner != t->id) {
            if (owner >= G.nth || G.th[owner].st == T_FINISHED) violation("stack.use_after_thread_exit", "T%d %s %u bytes at %p on the stack of finished thread T%d", t->id, wr ? "writes" : "reads", sz, a, owner);
            SimThread &o = G.th[owner];
            if (o.saved_sp && x + sz + 128 < o.saved_sp && x >= o.stack_lo + 4096 && o.started) violation("stack.use_after_return", "T%d %s %u bytes at %p below the stack pointer of parked thread T%d", t->id, wr ? "writes" : "reads", sz, a, owner);
        }
    }
    // optional scheduling point in front of a plain access to memory that another thread has touched in this run: makes windows
    // reachable that are bounded by plain accesses only (a protocol whose atomics were replaced by ordinary variables)
    if (G.plain_points && !G.fair && hb_shared_granule(t, x)) sched_point(t, SP_PLAIN);
    hb_access(t, x, sz, wr, false, pc);
}
extern "C" {
void __tsan_init() {}
void __tsan_read1(void *a) { plain(a, 1, false, PC()); }
void __tsan_read2(void *a) { plain(a, 2, false, PC()); }
void __tsan_read4(void *a) { plain(a, 4, false, PC()); }
void __tsan_read8(void *a) { plain(a, 8, false, PC()); }
void __tsan_read16(void *a) { plain(a, 16, false, PC()); }
void __tsan_write1(void *a) { plain(a, 1, true, PC()); }
void __tsan_write2(void *a) { plain(a, 2, true, PC()); }
void __tsan_write4(void *a) { plain(a, 4, true, PC()); }
void __tsan_write8(void *a) { plain(a, 8, true, PC()); }
void __tsan_write16(void *a) { plain(a, 16, true, PC()); }
void __tsan_unaligned_read2(void *a) { plain(a, 2, false, PC()); }
void __tsan_unaligned_read4(void *a) { plain(a, 4, false, PC()); }
void __tsan_unaligned_read8(void *a) { plain(a, 8, false, PC()); }
void __tsan_unaligned_read16(void *a) { plain(a, 16, false, PC()); }
void __tsan_unaligned_write2(void *a) { plain(a, 2, true, PC()); }
void __tsan_unaligned_write4(void *a) { plain(a, 4, true, PC()); }
void __tsan_unaligned_write8(void *a) { plain(a, 8, true, PC()); }
void __tsan_unaligned_write16(void *a) { plain(a, 16, true, PC()); }
void __tsan_read_range(void *a, unsigned long n) { if (n > 256) n = 256; plain(a, (unsigned)n, false, PC()); }
void __tsan_write_range(void *a, unsigned long n) { if (n > 256) n = 256; plain(a, (unsigned)n, true, PC()); }
void __tsan_vptr_update(void **a, void *) { plain(a, 8, true, PC()); }
void __tsan_vptr_read(void **a) { plain(a, 8, false, PC()); }
void __tsan_func_entry(void *) {
    SimThread *t = simself(); if (!t) return;
    uintptr_t pc = PC();
    probe_hit(pc);
    int d = ++t->depth;
    if (d < MAXDEPTH) { t->frames[d - 1] = t->stack_node; t->stack_node = trie_child(t->stack_node, (u32)pc); }
}
void __tsan_func_exit() {
    SimThread *t = simself(); if (!t) return;
    if (t->depth <= 0) return;
    int d = t->depth--;
    if (d < MAXDEPTH) t->stack_node = t->frames[d - 1];
}
}
