// linz.h — tiny linearizability checker (Wing & Gong style DFS) for short histories against a sequential model.
#pragma once
#include <vector>
#include <cstdint>

namespace vs {

struct LOp {
    int type;        // scenario-defined
    long arg;        // value pushed / value returned
    long inv, ret;   // global step stamps; ret = LONG_MAX for operations still pending at the end
    long aux = 0;
};

// Model concept: bool apply(const LOp&) — tries to apply the op in the current state, returns false if its
// recorded result is impossible in this state; Model must be cheaply copyable.
template <typename Model> bool linearizable(const std::vector<LOp> &ops, const Model &init) {
    size_t n = ops.size();
    if (n > 20) return true;   // bounded: longer histories are not checked
    struct Frame { uint32_t done; Model m; };
    std::vector<Frame> stack;
    std::vector<uint32_t> seen;   // visited 'done' sets with identical model are not memoised (model compare cost); small n
    stack.push_back({0u, init});
    uint32_t full = n == 32 ? 0xffffffffu : ((1u << n) - 1);
    size_t iters = 0;
    while (!stack.empty()) {
        Frame f = stack.back(); stack.pop_back();
        if (f.done == full) return true;
        if (++iters > 400000) return true;   // budget exhausted: give the benefit of the doubt (never a false alarm)
        long min_ret = INT64_MAX;
        for (size_t i = 0; i < n; i++) if (!(f.done & (1u << i)) && ops[i].ret < min_ret) min_ret = ops[i].ret;
        for (size_t i = 0; i < n; i++) {
            if (f.done & (1u << i)) continue;
            if (ops[i].inv > min_ret) continue;     // some other pending op returned before this one was invoked
            Model m = f.m;
            if (m.apply(ops[i])) stack.push_back({f.done | (1u << i), m});
        }
    }
    return false;
}

} // namespace vs
