// C16 — publisher: subscribers see a gap-free, ordered, duplicate-free stream (DESIGN §7 C16)
// Published values are their stream positions (1, 2, 3, ...), so every observation is attributable.
#include "common.h"
#include <cocls/publisher.h>
#include <cocls/async.h>
#include <memory>
#include <thread>
#include <vector>

const char *const dsim_property = "C16";
namespace {
using Pub = cocls::publisher<long>;
using Sub = cocls::subscriber<long>;
using ST = cocls::subscribtion_type;
const char *mode_name(ST t) { return t == ST::all_values ? "all" : t == ST::skip_if_behind ? "skip_if_behind" : "skip_to_recent"; }
enum { PUBLISHED = 0, CLOSED = 1, PUB_STARTED = 4, EAGER_N = 2, EAGER_EOS = 3, RECENT_N = 5, RECENT_LAST = 6, RECENT_EOS = 7, ST_P = 8, EAGER_LOG = 100, RD_N = 1000 /* per reader count */, RD_EOS = 1010, RD_SUBPOS_LO = 1020, RD_SUBPOS_HI = 1030, RD_KICKED = 1040, RD_LASTPOS = 1050, RD_LEFT = 1060, RD_LOG = 2000 /* 200 per reader */ };

// eager coroutine reader: consumes everything as soon as it is published
cocls::async<void> eager_reader(Sub &s) {
    for (;;) {
        bool ok = co_await s.next();
        if (!ok) { dsim::cell_add(EAGER_EOS, 1); co_return; }
        long k = dsim::cell_add(EAGER_N, 1) - 1; dsim::cell_set(EAGER_LOG + (int)k, s.value());
    }
}

// the same, subscribed in skip_to_recent mode: whenever a publish (single or batch) wakes it, it must be handed the newest value
cocls::async<void> recent_reader(Sub &s) {
    for (;;) {
        bool ok = co_await s.next();
        if (!ok) { dsim::cell_add(RECENT_EOS, 1); co_return; }
        dsim::cell_add(RECENT_N, 1); dsim::cell_set(RECENT_LAST, s.value());
        if (s.value() != dsim::cell_get(ST_P)) dsim::fail("C16.not_newest", "parked skip_to_recent subscriber was handed %ld while the newest published value is %ld", s.value(), dsim::cell_get(ST_P));
    }
}

void single_thread() {
    size_t maxq = 1 + dsim::choose(6), minq = 1 + dsim::choose(5);
    bool unlimited = maxq == 6; if (minq > maxq) minq = maxq;
    int nops = 3 + dsim::choose(18);
    dsim::plan_note("single-thread max=%s%zu min=%zu ops:", unlimited ? "unlimited/" : "", maxq, minq);
    auto pub = unlimited ? std::make_unique<Pub>() : std::make_unique<Pub>(maxq, minq);
    struct MSub { std::unique_ptr<Sub> s; ST t; long r; bool kicked = false, ended = false; long last_val = 0; size_t last_pos = 0; bool has_read = false; };
    std::vector<MSub> subs;
    long P = 0; bool closed = false;
    std::unique_ptr<Sub> eager_sub; long eager_from = -1; bool eager_kicked = false;
    std::unique_ptr<Sub> recent_sub; long recent_pubs = 0;     // parked skip_to_recent coroutine reader, publish operations since it subscribed
    auto lag_exceeds = [&](long r) { return !unlimited && (P - r) > (long)maxq; };
    auto check_eager = [&](const char *after) {
        if (!eager_sub) return;
        long n = dsim::cell_get(EAGER_N);
        bool lagging = false; (void)lagging;
        for (long k = 0; k < n; k++) if (dsim::cell_get(EAGER_LOG + (int)k) != eager_from + 1 + k) dsim::fail("C16.gap_or_duplicate", "after %s: parked coroutine subscriber received %ld as item #%ld after subscribing at position %ld", after, dsim::cell_get(EAGER_LOG + (int)k), k, eager_from);
        // a batch larger than max may legitimately end an all_values reader; otherwise it must have everything
        if (!dsim::cell_get(EAGER_EOS) && n != P - eager_from) dsim::fail("C16.lost_wakeup", "after %s: parked coroutine subscriber has %ld values, %ld were published since it subscribed", after, n, P - eager_from);
        if (dsim::cell_get(EAGER_EOS) && !closed && !eager_kicked && !(!unlimited && P - (eager_from + n) > (long)maxq)) dsim::fail("C16.early_end", "after %s: parked coroutine subscriber got end-of-stream without close, kick or lag", after);
        if (closed && !dsim::cell_get(EAGER_EOS)) dsim::fail("C16.close_did_not_wake", "after %s: parked coroutine subscriber did not receive end-of-stream", after);
    };
    for (int step = 0; step < nops; step++) {
        int op = dsim::choose(10);
        if (op == 9 && !subs.empty()) {        // a subscriber leaves in mid-stream (its registration slot is reused by later subscribers)
            MSub &m = subs[dsim::choose((unsigned)subs.size())];
            if (!m.ended) { m.s.reset(); m.ended = true; dsim::plan_note(" leave"); }
        }
        else if ((op == 0 || op == 7) && !closed) { dsim::cell_set(ST_P, P + 1); pub->publish(++P); dsim::plan_note(" pub"); if (recent_sub) recent_pubs++; }
        else if (op == 1 && !closed) { int n = 2 + dsim::choose(3); std::vector<long> b; for (int i = 0; i < n; i++) b.push_back(++P); dsim::cell_set(ST_P, P); pub->publish(b.begin(), b.end()); dsim::plan_note(" batch%d", n); if (recent_sub) recent_pubs++; }
        else if (op == 8 && !recent_sub && !closed) { recent_sub = std::make_unique<Sub>(*pub, ST::skip_to_recent); recent_reader(*recent_sub).detach(); dsim::plan_note(" recent-reader"); }
        else if (op == 2 && subs.size() < 4 && !closed) {
            ST t = (ST)dsim::choose(3); int how = dsim::choose(3);
            MSub m; m.t = t;
            if (how == 0 || subs.empty() && how == 2) { m.s = std::make_unique<Sub>(*pub, t); m.r = P; dsim::plan_note(" sub(%s)", mode_name(t)); }
            else if (how == 1) { long keep = unlimited ? 1 : (long)minq; long back = dsim::choose(3); if (back > keep) back = keep; /* only positions the queue is certain to retain */ long pos = P - back < 0 ? 0 : P - back; m.s = std::make_unique<Sub>(*pub, (size_t)pos, t); m.r = pos; dsim::plan_note(" sub@%ld(%s)", pos, mode_name(t)); }
            else { MSub &o = subs[dsim::choose((unsigned)subs.size())]; if (o.ended) continue; m.s = std::make_unique<Sub>(*o.s); m.t = o.t; m.r = o.r; m.kicked = false; dsim::plan_note(" copy"); }
            subs.push_back(std::move(m));
        }
        else if ((op == 3 || op == 8) && !subs.empty()) {
            // read: polled, or blocking when the model says the call cannot block
            MSub &m = subs[dsim::choose((unsigned)subs.size())];
            if (m.ended) continue;
            bool can_block = !(P > m.r || closed || m.kicked);
            bool blocking = !can_block && dsim::flip();
            bool got = blocking ? (bool)m.s->next() : m.s->next_ready();
            dsim::plan_note(blocking ? " read!" : " poll");
            if (can_block) { if (got) dsim::fail("C16.phantom_value", "poll returned a value although nothing new was published (last read %ld, published %ld)", m.r, P); continue; }
            if (!got) {
                bool legit = m.kicked || (closed && m.r >= P) || lag_exceeds(m.r) || (closed && lag_exceeds(m.r));
                if (!legit) dsim::fail("C16.early_end", "%s subscriber got end-of-stream at position %ld: published %ld, closed %d, kicked %d, max queue %zu", mode_name(m.t), m.r, P, (int)closed, (int)m.kicked, maxq);
                m.ended = true; continue;
            }
            if (m.kicked) dsim::fail("C16.kicked_reads_on", "kicked subscriber received a value");
            long v = m.s->value();
            if (m.t == ST::all_values) {
                if (v != m.r + 1) dsim::fail(v <= m.r ? "C16.duplicate" : "C16.gap", "all_values subscriber at position %ld received %ld (published %ld)", m.r, v, P);
            } else {
                if (v <= m.r) dsim::fail("C16.not_forward", "%s subscriber received %ld after %ld", mode_name(m.t), v, m.r);
                if (v > P) dsim::fail("C16.phantom_value", "received %ld but only %ld published", v, P);
                if (m.t == ST::skip_to_recent && v != P) dsim::fail("C16.not_recent", "skip_to_recent received %ld, newest is %ld", v, P);
                if (m.has_read && m.s->position() <= m.last_pos) dsim::fail("C16.not_forward", "position() did not increase (%zu after %zu)", m.s->position(), m.last_pos);
            }
            m.last_pos = m.s->position(); m.has_read = true; m.r = v;
        }
        else if (op == 4 && !subs.empty()) { MSub &m = subs[dsim::choose((unsigned)subs.size())]; if (!m.s) continue; if (dsim::flip()) pub->kick(m.s.get()); else m.s->kick_me(); m.kicked = true; dsim::plan_note(" kick"); }
        else if (op == 5 && !eager_sub && !closed) { eager_sub = std::make_unique<Sub>(*pub); eager_from = P; eager_reader(*eager_sub).detach(); dsim::plan_note(" eager"); }
        else if (op == 6 && dsim::choose(3) == 0 && !closed) { if (dsim::flip()) pub->close(); else pub.reset(); closed = true; dsim::plan_note(" close"); if (!pub) { check_eager("publisher destruction"); break; } }
        check_eager("step");
        if (recent_sub && !dsim::cell_get(RECENT_EOS)) {     // woken once per publish operation, each time with the newest value
            // (at least once: after a batch the library hands the newest item out a second time - the wake-up moved the position by one only -
            // which the statement allows: positions still move forward and the value is the newest)
            if (dsim::cell_get(RECENT_N) < recent_pubs) dsim::fail("C16.lost_wakeup", "parked skip_to_recent subscriber was woken %ld times by %ld publish operations", dsim::cell_get(RECENT_N), recent_pubs);
            if (recent_pubs && dsim::cell_get(RECENT_LAST) != P) dsim::fail("C16.not_newest", "parked skip_to_recent subscriber was handed %ld, the newest published value is %ld", dsim::cell_get(RECENT_LAST), P);
        }
    }
    if (pub) { pub.reset(); closed = true; }
    check_eager("publisher destruction");
    // drain every subscriber after close: all retained values, then end-of-stream
    for (auto &m : subs) {
        if (m.ended) continue;
        for (int guard = 0; guard < 64; guard++) {
            bool got = (bool)m.s->next();          // never blocks after close
            if (!got) break;
            long v = m.s->value();
            if (m.kicked) dsim::fail("C16.kicked_reads_on", "kicked subscriber received a value after close");
            if (m.t == ST::all_values) { if (v != m.r + 1) dsim::fail(v <= m.r ? "C16.duplicate" : "C16.gap", "after close: all_values subscriber at position %ld received %ld (published %ld)", m.r, v, P); }
            else if (v <= m.r || v > P) dsim::fail("C16.not_forward", "after close: %s subscriber received %ld after %ld", mode_name(m.t), v, m.r);
            m.r = v;
        }
        if (m.t == ST::all_values && !m.kicked && m.r != P && !lag_exceeds(m.r)) dsim::fail("C16.lost_after_close", "all_values subscriber ended at position %ld, %ld values were published and retained", m.r, P);
    }
}

// ================================================================== one publisher thread against subscriber threads
// every read is followed by position(): it must move strictly forward (the reader's own accessor, called while other threads subscribe and publish)
void reader_record(int i, long v, Sub &s) {
    dsim::event("read", i, v);
    long pos = (long)s.position(), last = dsim::cell_xchg(RD_LASTPOS + i, pos);
    if (pos <= last) dsim::fail("C16.not_forward", "reader %d: position() went from %ld to %ld", i, last, pos);
    long k = dsim::cell_add(RD_N + i, 1) - 1; if (k < 200) dsim::cell_set(RD_LOG + 200 * i + (int)k, v);
}
cocls::async<void> coro_reader(Sub &s, int i) {
    for (;;) { bool ok = co_await s.next(); if (!ok) break; reader_record(i, s.value(), s); }
    dsim::cell_set(RD_EOS + i, dsim::cell_get(PUBLISHED) + 1);
}

// event-driven reader: a callback awaiter registered through next().subscribe(); the handler (run inline by the publishing thread)
// fetches the value, then goes on reading from inside the handler
struct CbReader : cocls::awaiter {
    Sub &s; int i; cocls::promise<void> done;
    CbReader(Sub &s, int i) : s(s), i(i) { set_resume_fn(&fire); }
    static cocls::suspend_point<void> fire(cocls::awaiter *me, void *) noexcept { auto *r = static_cast<CbReader *>(me); return r->after_wake(); }
    cocls::suspend_point<void> after_wake() {
        auto a = s.next();
        if (!a.await_resume()) return done();
        reader_record(i, s.value(), s);
        return pump();
    }
    cocls::suspend_point<void> pump() {
        for (;;) {
            auto a = s.next();
            if (!a.await_ready() && a.subscribe(this)) return {};       // parked: the publisher will call fire()
            if (!a.await_resume()) return done();
            reader_record(i, s.value(), s);
        }
    }
};
void multi_thread() {
    size_t maxq = 2 + dsim::choose(5), minq = 1 + dsim::choose(3);
    bool unlimited = maxq == 6; if (minq > maxq) minq = maxq;
    int ns = 1 + dsim::choose(3), npub = 1 + dsim::choose(8);
    int kind[3]; ST mode[3]; bool kick[3];
    for (int i = 0; i < ns; i++) {
        kind[i] = dsim::choose(5); mode[i] = (ST)dsim::choose(3); kick[i] = dsim::choose(5) == 4;
        // a polled reader cannot tell "nothing new" from end-of-stream, so with a concurrent close it may poll once more after the end;
        // the statement says nothing about reads after the end, so polled readers on threads use all_values (where that is harmless)
        if (kind[i] == 3) mode[i] = ST::all_values;
        // ... and only on an unlimited queue: on a bounded one the unrecognisable 'false' may also be the lag end-of-stream
        if (kind[i] == 3 && !unlimited) kind[i] = 1;
    }
    // a blocking reader may, after 'quota' reads and while the publisher is still at work, leave (destroy its subscriber) or go on
    // with a copy of its subscriber (the original leaves): registration slots are freed and reused under concurrency
    int act[3] = {0, 0, 0}, quota[3] = {0, 0, 0};
    for (int i = 0; i < ns; i++) if (kind[i] == 1 && !kick[i]) { act[i] = dsim::choose(3); quota[i] = 1 + dsim::choose(3); }
    unsigned batches = dsim::flip() ? dsim::choose(256) << 1 : 0;
    bool at_pos[3] = {false, false, false}; for (int i = 0; i < ns; i++) at_pos[i] = dsim::choose(4) == 3 && kind[i] != 3;      // (not for polled readers: next_ready()==false does not tell 'position not retained' from 'nothing new', they would read on)
    bool destroy = dsim::flip();
    dsim::plan_note("threads max=%s%zu min=%zu publishes=%d batches=%x destroy=%d", unlimited ? "unlimited/" : "", maxq, minq, npub, batches, (int)destroy);
    for (int i = 0; i < ns; i++) dsim::plan_note(" R%d:kind%d,%s%s%s%s", i, kind[i], mode_name(mode[i]), kick[i] ? ",kicked" : "", act[i] == 1 ? ",leaves" : act[i] == 2 ? ",copies" : "", at_pos[i] ? ",at-position" : "");
    auto pub = unlimited ? std::make_unique<Pub>() : std::make_unique<Pub>(maxq, minq);
    std::unique_ptr<Sub> subs[3];
    std::vector<std::thread> th;
    for (int i = 0; i < ns; i++) th.emplace_back([&, i] {
        dsim::cell_set(RD_SUBPOS_LO + i, dsim::cell_get(PUBLISHED));
        if (at_pos[i]) subs[i] = std::make_unique<Sub>(*pub, (std::size_t)dsim::cell_get(RD_SUBPOS_LO + i), mode[i]);     // subscribe at an explicit position: right after the newest value this thread knows of
        else subs[i] = std::make_unique<Sub>(*pub, mode[i]);
        Sub &s = *subs[i];
        dsim::event("subscribed", i, (long)s.position());
        vs::cell_set_hb(RD_SUBPOS_HI + i, dsim::cell_get(PUB_STARTED) + 1);     // publishes STARTED when subscribe returned (+1: marks "set")
        switch (kind[i]) {
        case 0: coro_reader(s, i).join(); break;
        case 1: {
            Sub *cur = &s; long cnt = 0;
            while (cur->next()) {
                reader_record(i, cur->value(), *cur);
                if (act[i] && ++cnt == quota[i]) {
                    if (act[i] == 1) { subs[i].reset(); dsim::cell_set(RD_LEFT + i, 1); break; }
                    auto c = std::make_unique<Sub>(*cur); subs[i] = std::move(c); cur = subs[i].get();      // continues independently from the original's position
                }
            }
            break; }
        case 2: for (long v : s) reader_record(i, v, s); break;
        case 4: { CbReader r(s, i); cocls::future<void> fin; r.done = fin.get_promise(); r.pump(); fin.wait(); break; }
        default:
            for (;;) {
                long c = dsim::cell_get(CLOSED), kk = dsim::cell_get(RD_KICKED + i);   // sampled BEFORE the poll
                if (s.next_ready()) { reader_record(i, s.value(), s); continue; }
                if (c == 2 || kk == 1) break;          // close()/kick() had returned before this poll began: false means end-of-stream
                std::this_thread::yield();
            }
            break;
        }
        dsim::cell_set(RD_EOS + i, 1);
    });
    std::thread pt([&] {
        for (int k = 1, b; k <= npub; k += b) {
            b = ((batches >> k) & 1) && k < npub ? 2 : 1;          // single value or a batch of two through the iterator overload
            int last = k + b - 1; long two[2] = {k, k + 1};
            dsim::cell_set(PUB_STARTED, last); dsim::event("publish", k, b);
            if (b == 2) pub->publish(&two[0], &two[2]); else pub->publish((long)k);
            dsim::cell_set(PUBLISHED, last); dsim::event("published", last);
            if (k <= (npub + 1) / 2 && (npub + 1) / 2 <= last) for (int i = 0; i < ns; i++) if (kick[i] && vs::cell_get_hb(RD_SUBPOS_HI + i)) { pub->kick(subs[i].get()); dsim::cell_set(RD_KICKED + i, 1); }
        }
        for (int i = 0; i < ns; i++) vs::wait_cell_hb(RD_SUBPOS_HI + i);    // nobody may still be inside subscribe() when the publisher goes away
        dsim::cell_set(CLOSED, 1);
        if (destroy) pub.reset(); else pub->close();
        dsim::cell_set(CLOSED, 2);
    });
    pt.join();
    for (auto &t : th) t.join();      // close / destruction must wake every parked subscriber (else: deadlock)
    long P = npub;
    for (int i = 0; i < ns; i++) {
        long n = dsim::cell_get(RD_N + i); if (n > 200) n = 200;
        long lo = dsim::cell_get(RD_SUBPOS_LO + i), hi = dsim::cell_get(RD_SUBPOS_HI + i) - 1;
        long prev = -1;
        for (long k = 0; k < n; k++) {
            long v = dsim::cell_get(RD_LOG + 200 * i + (int)k);
            if (v < 1 || v > P) dsim::fail("C16.phantom_value", "reader %d received %ld, published 1..%ld", i, v, P);
            if (mode[i] == ST::all_values) {
                if (k == 0 && at_pos[i]) { if (v != lo + 1) dsim::fail("C16.gap", "all_values reader %d subscribed at position %ld but its first value is %ld", i, lo, v); }
                else if (k == 0) { if (v < lo + 1 || v > hi + 1) dsim::fail("C16.gap", "all_values reader %d subscribed between positions %ld and %ld but its first value is %ld", i, lo, hi, v); }
                else if (v != prev + 1) dsim::fail(v <= prev ? "C16.duplicate" : "C16.gap", "all_values reader %d received %ld after %ld", i, v, prev);
            } else if (v < prev) dsim::fail("C16.not_forward", "%s reader %d received %ld after %ld", mode_name(mode[i]), i, v, prev);
            prev = v;
        }
        if (!dsim::cell_get(RD_EOS + i)) dsim::fail("C16.close_did_not_wake", "reader %d never saw end-of-stream", i);
        // after close every value published before the close and still retained is delivered: an all_values reader that
        // could not have been more than max behind must end exactly at P
        if (mode[i] == ST::all_values && !dsim::cell_get(RD_KICKED + i) && !dsim::cell_get(RD_LEFT + i) && !(at_pos[i] && n == 0)) {     // (a reader positioned explicitly ends at once when its position is no longer retained: only min items certainly are)
            long first_pos = n ? dsim::cell_get(RD_LOG + 200 * i) - 1 : lo;          // earliest possible subscription point
            bool could_lag = !unlimited && P - first_pos > (long)maxq;
            bool complete = n ? prev == P : hi >= P;                                   // read nothing: fine only if it may have subscribed at the very end
            if (!complete && !could_lag) dsim::fail("C16.lost_after_close", "all_values reader %d ended at %ld (read %ld values, subscribed between %ld and %ld), published %ld, max queue %zu: it cannot have been more than max behind", i, n ? prev : hi, n, lo, hi, P, maxq);
        }
    }
}
} // namespace

void dsim_scenario() {
    if (dsim::choose(3) == 0) single_thread(); else multi_thread();
}
