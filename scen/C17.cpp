// C17 — shared_future: one result for all copies; state lives exactly as long as needed (DESIGN §7 C17)
#include "common.h"
#include <cocls/shared_future.h>
#include <cocls/async.h>
#include <thread>
#include <vector>

const char *const dsim_property = "C17";
namespace {
enum { RESOLVED = 0, OBS = 10, KINDS = 20, VALS = 30 };
constexpr long VAL = 7171;
using SF = cocls::shared_future<vs::Counted>;

void observed(int i, int kind, long val, int rk) {
    long n = dsim::cell_add(OBS + i, 1);
    if (n != 1) dsim::fail("C17.resumed_twice", "awaiter %d resumed %ld times", i, n);
    int ek = rk == 0 ? 1 : rk == 1 ? 2 : 3;
    if (kind != ek || (kind == 1 && val != VAL) || (kind == 2 && val != 9)) dsim::fail("C17.result_differs", "awaiter %d observed kind %d value %ld, the resolver supplied kind %d", i, kind, val, ek);
    dsim::event("observed", i, kind);
}
cocls::async<void> co_user(SF sf, int i, int rk) {      // holds its own copy of the handle in its frame
    int kind; long val = 0;
    try { vs::Counted &r = co_await sf; val = r.value(); kind = 1; }
    catch (const vs::TestError &e) { kind = 2; val = e.code; }
    catch (const cocls::await_canceled_exception &) { kind = 3; }
    observed(i, kind, val, rk);
}
// event-driven user: a callback awaiter that owns a handle; its handler - run inline by the resolving thread, inside the walk over the
// future's awaiters - reads the result and then drops that handle (possibly the last one a user holds)
struct CbUser : cocls::awaiter {
    SF sf; int i, rk; cocls::promise<void> done;
    CbUser(SF s, int i, int rk) : sf(std::move(s)), i(i), rk(rk) { set_resume_fn([](cocls::awaiter *me, void *) noexcept -> cocls::suspend_point<void> { return static_cast<CbUser *>(me)->fire(); }); }
    cocls::suspend_point<void> fire() {
        int kind; long val = 0;
        try { val = sf.value().value(); kind = 1; } catch (const vs::TestError &e) { kind = 2; val = e.code; } catch (const cocls::await_canceled_exception &) { kind = 3; }
        observed(i, kind, val, rk);
        sf = SF();
        return done();
    }
    void arm() { auto aw = sf.operator co_await(); if (!aw.subscribe(this)) fire().clear(); }
};
// (every awaiter holds its own reference while it waits: the documented contract of shared_future)
void resolve(cocls::promise<vs::Counted> &p, int rk) {
    switch (rk) { case 0: p(VAL); break; case 1: p(vs::make_err(9)); break; default: p(cocls::drop); break; }
    dsim::cell_set(RESOLVED, 1);
}
// by-reference producer (ReturnsFuture lets a shared_future<T> be built from a function returning future<T&>): the result is the
// resolver's own object, which the shared state must neither copy nor destroy
vs::Counted *g_ext = nullptr;
void resolve_ref(cocls::promise<vs::Counted &> &p, int rk) {
    switch (rk) { case 0: p(*g_ext); break; case 1: p(vs::make_err(9)); break; default: p(cocls::drop); break; }
    dsim::cell_set(RESOLVED, 1);
}
}

void dsim_scenario() {
    int ctor = dsim::choose(8);       // 5: default-constructed, init_if_needed(), then sf << fn ("same as result_of")
    //       // ... 4: default-constructed, init_if_needed() called explicitly (public), then get_promise()       // 0 promise-taking fn, 1 future-returning fn (pending), 2 future-returning fn (already resolved), 3 default + get_promise()
    int rk = dsim::choose(3);
    int nu = 1 + dsim::choose(3);
    int uk[3]; for (int i = 0; i < nu; i++) uk[i] = dsim::choose(9);
    bool t0_drops_early = dsim::flip();
    bool handoff_in_ctor = dsim::flip();      // the init function itself passes the promise to the resolver thread: resolution races with the constructor
    dsim::plan_note("ctor=%d resolver=%d users=", ctor, rk); for (int i = 0; i < nu; i++) dsim::plan_note("%d", uk[i]);
    dsim::plan_note(" t0_drops_early=%d handoff_in_ctor=%d", (int)t0_drops_early, (int)handoff_in_ctor);
    bool by_ref = ctor >= 6;          // 6: constructed from a function returning future<Counted&>, 7: the same through operator<<
    std::unique_ptr<vs::Counted> ext; if (by_ref) { ext = std::make_unique<vs::Counted>(VAL); g_ext = ext.get(); }
    {
        cocls::promise<vs::Counted> prom;
        cocls::promise<vs::Counted &> prom_ref;
        std::unique_ptr<SF> sf;
        std::thread res;
        auto hand_over_ref = [&](cocls::promise<vs::Counted &> p) { if (handoff_in_ctor) res = std::thread([q = std::move(p), rk]() mutable { resolve_ref(q, rk); }); else prom_ref = std::move(p); };
        auto hand_over = [&](cocls::promise<vs::Counted> p) { if (handoff_in_ctor) res = std::thread([q = std::move(p), rk]() mutable { resolve(q, rk); }); else prom = std::move(p); };
        switch (ctor) {
        case 0: sf = std::make_unique<SF>([&](cocls::promise<vs::Counted> p) { hand_over(std::move(p)); }); break;
        case 1: sf = std::make_unique<SF>([&]() -> cocls::future<vs::Counted> { return [&](cocls::promise<vs::Counted> p) { hand_over(std::move(p)); }; }); break;
        case 2: sf = std::make_unique<SF>([&]() -> cocls::future<vs::Counted> {
                    if (rk == 0) return cocls::future<vs::Counted>::set_value(VAL);
                    if (rk == 1) return cocls::future<vs::Counted>::set_exception(vs::make_err(9));
                    return cocls::future<vs::Counted>::set_not_value(); });
                dsim::cell_set(RESOLVED, 1); break;
        case 3: sf = std::make_unique<SF>(); if (sf->ready()) dsim::fail("C17.not_ready", "a default-constructed shared_future reports ready"); prom = sf->get_promise(); break;     // usable promise from a default-constructed object
        case 5: sf = std::make_unique<SF>(); sf->init_if_needed();
                *sf << [&]() -> cocls::future<vs::Counted> { return [&](cocls::promise<vs::Counted> p) { hand_over(std::move(p)); }; };
                break;
        case 6: sf = std::make_unique<SF>([&]() -> cocls::future<vs::Counted &> { return [&](cocls::promise<vs::Counted &> p) { hand_over_ref(std::move(p)); }; }); break;
        case 7: sf = std::make_unique<SF>(); sf->init_if_needed();
                *sf << [&]() -> cocls::future<vs::Counted &> { return [&](cocls::promise<vs::Counted &> p) { hand_over_ref(std::move(p)); }; };
                break;
        default: sf = std::make_unique<SF>(); sf->init_if_needed(); { SF early_copy = *sf; (void)early_copy; } prom = sf->get_promise(); break;
        }
        if (ctor != 2 && !prom && !prom_ref && !res.joinable()) dsim::fail("C17.no_promise", "construction mode %d produced no usable promise", ctor);
        std::vector<std::thread> th;
        for (int i = 0; i < nu; i++) {
            th.emplace_back([copy = *sf, i, k = uk[i], rk]() mutable {
                switch (k) {
                case 0: co_user(copy, i, rk).join(); break;
                case 1: { int kind; long val = 0; try { val = copy.wait().value(); kind = 1; } catch (const vs::TestError &e) { kind = 2; val = e.code; } catch (const cocls::await_canceled_exception &) { kind = 3; } observed(i, kind, val, rk); break; }
                case 2: { SF second = copy; copy = SF(); co_user(second, i, rk).join(); break; }           // copy of a copy, first one dropped
                case 3: { /* drop at once */ SF gone = std::move(copy); (void)gone; break; }
                case 6: case 7: case 8: {   // the remaining blocking accessors: join(), force_sync(), force_wait()
                    int kind; long val = 0;
                    try { if (k == 6) copy.join(); else if (k == 7) copy.force_sync(); else (void)copy.force_wait(); val = copy.value().value(); kind = 1; }
                    catch (const vs::TestError &e) { kind = 2; val = e.code; } catch (const cocls::await_canceled_exception &) { kind = 3; }
                    observed(i, kind, val, rk); break; }
                case 5: { CbUser u(std::move(copy), i, rk); cocls::future<void> fin; u.done = fin.get_promise(); u.arm(); fin.wait(); break; }
                default: { copy.sync(); int kind; long val = 0; try { val = copy.value().value(); kind = 1; } catch (const vs::TestError &e) { kind = 2; val = e.code; } catch (const cocls::await_canceled_exception &) { kind = 3; } observed(i, kind, val, rk); break; }
                }
            });
        }
        if (by_ref && !res.joinable()) res = std::thread([p = std::move(prom_ref), rk]() mutable { resolve_ref(p, rk); });
        if (ctor != 2 && !res.joinable()) res = std::thread([p = std::move(prom), rk]() mutable { resolve(p, rk); });
        if (t0_drops_early) sf.reset();      // possibly every handle is gone while the state is still pending
        if (res.joinable()) res.join();
        for (auto &t : th) t.join();
        if (sf) {
            if (!sf->ready()) dsim::fail("C17.not_ready", "shared_future not ready after resolution");
            int kind; long val = 0;
            try { val = sf->value().value(); kind = 1; } catch (const vs::TestError &e) { kind = 2; val = e.code; } catch (const cocls::await_canceled_exception &) { kind = 3; }
            observed(8, kind, val, rk);
            if (by_ref && rk == 0 && &sf->value() != ext.get()) dsim::fail("C17.result_differs", "a by-reference result is not the resolver's object");
            if (rk == 0 && vs::Counted::constructed() - vs::Counted::destroyed() != 1) dsim::fail("C17.instances", "%ld live instances of the stored value while a handle exists", vs::Counted::constructed() - vs::Counted::destroyed());
        } else if (vs::Counted::constructed() - vs::Counted::destroyed() != (by_ref ? 1 : 0)) dsim::fail("C17.state_not_freed", "every handle is gone and the future is resolved but the stored value still lives (%ld constructed, %ld destroyed)", vs::Counted::constructed(), vs::Counted::destroyed());
        for (int i = 0; i < nu; i++) if (uk[i] != 3 && dsim::cell_get(OBS + i) != 1) dsim::fail("C17.awaiter_lost", "awaiter %d observed the result %ld times", i, dsim::cell_get(OBS + i));
    }
    if (by_ref) { ext->check("C17: the resolver's object after the shared state is gone"); if (ext->value() != VAL) dsim::fail("C17.result_differs", "the resolver's object was modified"); ext.reset(); g_ext = nullptr; }
    vs::Counted::expect_balanced("C17.instances");
}
