// C11 — thread pool: every submission runs once on a worker or is cancelled once (DESIGN §7 C11)
#include "common.h"
#include <cocls/thread_pool.h>
#include <cocls/future.h>
#include <cocls/async.h>
#include <memory>
#include <array>
#include <thread>
#include <vector>

const char *const dsim_property = "C11";
namespace {
enum { STOP_CALLED = 0, STOP_RETURNED = 1, NJOBS = 2, STOPPER_DONE = 3, NWORKERS = 4, NSEEN = 5, WORKER_IDS = 10 /* 8 */,
       RAN = 100, CANCELLED = 200, ON_WORKER = 300, KIND = 400, SUBMITTED = 500, FIN = 600 /* waiter side finished */, TOKEN_GONE = 700, HOP_RAN = 800, HOP_CANC = 900, SIB = 1000 /* a second coroutine rides on the suspend point of job j */, SIB_RAN = 1100, SIB_CANC = 1200 };
constexpr int MAXJ = 24;

void ran(cocls::thread_pool &pool, int j) {
    long n = dsim::cell_add(RAN + j, 1);
    if (n != 1) dsim::fail("C11.ran_twice", "job %d executed %ld times", j, n);
    if (dsim::cell_get(CANCELLED + j)) dsim::fail("C11.ran_and_cancelled", "job %d executed after it was cancelled", j);
    if (!is_current(pool)) dsim::fail("C11.not_on_worker", "job %d (kind %ld) executes on a thread that is not a worker of the pool", j, dsim::cell_get(KIND + j));
    // the pool has exactly the requested number of workers: jobs are seen on at most that many different threads
    long me = (long)pthread_self(); long nw = dsim::cell_get(NWORKERS), seen = dsim::cell_get(NSEEN); bool known = false;
    for (long k = 0; k < seen && k < 8; k++) if (dsim::cell_get(WORKER_IDS + (int)k) == me) known = true;
    if (!known && nw) { if (seen >= nw) dsim::fail("C11.too_many_workers", "job %d runs on a %ld. different thread, the pool was created with %ld worker(s)", j, seen + 1, nw); dsim::cell_set(WORKER_IDS + (int)seen, me); dsim::cell_set(NSEEN, seen + 1); }
    dsim::event("ran", j);
}
void cancelled(int j) {
    long n = dsim::cell_add(CANCELLED + j, 1);
    if (n != 1) dsim::fail("C11.cancelled_twice", "job %d cancelled %ld times", j, n);
    if (dsim::cell_get(RAN + j)) dsim::fail("C11.ran_and_cancelled", "job %d cancelled after it executed", j);
    dsim::event("cancelled", j);
}

// kind 0: coroutine transfers itself with co_await pool
cocls::async<void> k0(cocls::thread_pool &pool, int j) {
    try { co_await pool; ran(pool, j); } catch (const cocls::await_canceled_exception &) { cancelled(j); if (!pool.is_stopped()) dsim::fail("C11.cancelled_by_running_pool", "job %d was cancelled but the pool does not report that it is stopped", j); co_return; }
    if (!(j & 1)) co_return;
    // odd jobs hand themselves in a second time, through the thread-local "current pool": again run once on a worker or cancelled once
    bool stopped_before = cocls::thread_pool::current::is_stopped(); (void)cocls::thread_pool::current::any_enqueued();
    try {
        co_await cocls::thread_pool::current();
        if (dsim::cell_add(HOP_RAN + j, 1) != 1) dsim::fail("C11.ran_twice", "job %d continued %ld times after co_await current()", j, dsim::cell_get(HOP_RAN + j));
        if (!is_current(pool) && !pool.is_stopped()) dsim::fail("C11.not_on_worker", "job %d continues after co_await current() on a thread that is not a worker although the pool runs", j);
    } catch (const cocls::await_canceled_exception &) {
        if (dsim::cell_add(HOP_CANC + j, 1) != 1) dsim::fail("C11.cancelled_twice", "second hop of job %d cancelled twice", j);
        if (!pool.is_stopped()) dsim::fail("C11.cancelled_by_running_pool", "second hop of job %d was cancelled but the pool does not report that it is stopped", j);
    }
    (void)stopped_before;
}
// kind 1: co_await pool(awaitable): resumed in the pool when the awaited future resolves
cocls::async<void> k1(cocls::thread_pool &pool, cocls::future<long> &f, int j) {
    try { long v = co_await pool(f); if (v != 42 + j) dsim::fail("C11.value", "job %d got %ld", j, v); ran(pool, j); }
    catch (const cocls::await_canceled_exception &) { cancelled(j); }
    dsim::cell_set(FIN + j, 1);
}
// kind 3: run(async)
cocls::async<long> k3(cocls::thread_pool &pool, int j) { ran(pool, j); co_return 300 + j; }
// kind 5: resume(suspend_point)
cocls::async<void> k5(cocls::thread_pool &pool, cocls::future<long> &f, int j) {
    try { long v = co_await f; if (v != 500 + j) dsim::fail("C11.value", "job %d got %ld", j, v); ran(pool, j); }
    catch (const cocls::await_canceled_exception &) { cancelled(j); }
    dsim::cell_set(FIN + j, 1);
}
// a second waiter of the same future: the suspend point handed to resume() then carries two coroutines, each of which is a unit of work
cocls::async<void> k5s(cocls::thread_pool &pool, cocls::future<long> &f, int j) {
    try {
        long v = co_await f; if (v != 500 + j) dsim::fail("C11.value", "second waiter of job %d got %ld", j, v);
        if (dsim::cell_add(SIB_RAN + j, 1) != 1) dsim::fail("C11.ran_twice", "second coroutine carried by the suspend point of job %d executed twice", j);
        if (!is_current(pool)) dsim::fail("C11.not_on_worker", "second coroutine carried by the suspend point of job %d executes on a thread that is not a worker of the pool", j);
    } catch (const cocls::await_canceled_exception &) { dsim::cell_add(SIB_CANC + j, 1); }
}
struct Token { int j; explicit Token(int j) : j(j) {} ~Token() { vs::cell_add_hb(TOKEN_GONE + j, 1); } };

void do_stop(cocls::thread_pool &pool) { dsim::cell_set(STOP_CALLED, 1); pool.stop(); dsim::cell_add(STOP_RETURNED, 1); }

// heap-held futures of bare-handle submissions (they may stay pending for ever: recorded finding)
struct Pending { std::unique_ptr<cocls::future<long>> f; int j; };

void submit(cocls::thread_pool &pool, int kind, int j, int stop_mode, std::vector<Pending> &bare) {
    dsim::cell_set(KIND + j, kind);
    switch (kind) {
    case 0: { auto f = k0(pool, j).start(); dsim::cell_set(SUBMITTED + j, 1); f.wait(); break; }
    case 1: {
        auto fut = std::make_unique<cocls::future<long>>(); auto p = fut->get_promise();
        k1(pool, *fut, j).detach();
        dsim::cell_set(SUBMITTED + j, 1);
        p(42 + j);                                  // the coroutine is handed to the pool here
        bare.push_back({std::move(fut), j});
        break; }
    case 2: {
        if (j % 4 == 2) {      // a function without a result: run() returns future<void>
            auto f = pool.run([&pool, j] { ran(pool, j); });
            dsim::cell_set(SUBMITTED + j, 1);
            try { f.wait(); if (!dsim::cell_get(RAN + j)) dsim::fail("C11.value", "run() future<void> of job %d is resolved but the function did not run", j); }
            catch (const cocls::await_canceled_exception &) { cancelled(j); }
            break;
        }
        auto f = pool.run([&pool, j] { ran(pool, j); if (j % 2) throw vs::TestError(j); return 200L + j; });      // odd jobs end with an exception: still "ran", reported through the future
        dsim::cell_set(SUBMITTED + j, 1);
        try { long v = f.wait(); if (v != 200 + j || j % 2) dsim::fail("C11.value", "run() future of job %d holds %ld", j, v); if (!dsim::cell_get(RAN + j)) dsim::fail("C11.value", "run() future of job %d has a value but the function did not run", j); }
        catch (const cocls::await_canceled_exception &) { cancelled(j); }
        catch (const vs::TestError &e) { if (!(j % 2) || e.code != j || !dsim::cell_get(RAN + j)) dsim::fail("C11.value", "run() future of job %d reports exception %ld (ran %ld)", j, e.code, dsim::cell_get(RAN + j)); }
        break; }
    case 3: {
        auto fut = std::make_unique<cocls::future<long>>([&] { return pool.run(k3(pool, j)); });
        dsim::cell_set(SUBMITTED + j, 1);
        bare.push_back({std::move(fut), j});
        break; }
    case 4: {
        auto tok = std::make_shared<Token>(j);
        if (stop_mode == 2 && j == 0) pool.run_detached([&pool, j, tok] { ran(pool, j); do_stop(pool); });   // stop() from a job on a worker
        else if (j % 3 == 1) {      // closure that exactly fills the inline space of the pool's function object (8 + 8 + 16 + 24 bytes + vptr = 64)
            std::array<long, 3> pad{j * 100L, j * 100L + 1, j * 100L + 2};
            pool.run_detached([&pool, j, tok, pad] { if (pad[0] != j * 100L || pad[2] != j * 100L + 2) dsim::fail("C11.closure_damaged", "captured state of job %d changed on its way through the pool", j); ran(pool, j); });
        } else if (j % 3 == 2) {    // closure too large for the inline space: stored on the heap by the function object
            std::array<long, 12> pad; for (int k = 0; k < 12; k++) pad[k] = j * 100L + k;
            pool.run_detached([&pool, j, tok, pad] { for (int k = 0; k < 12; k++) if (pad[k] != j * 100L + k) dsim::fail("C11.closure_damaged", "captured state of job %d changed on its way through the pool", j); ran(pool, j); });
        }
        else pool.run_detached([&pool, j, tok] { ran(pool, j); });
        dsim::cell_set(SUBMITTED + j, 1);
        break; }
    case 6: {   // a job that uses a short-lived pool of its own and destroys it - from a worker of the outer pool, which must stay one
        auto tok = std::make_shared<Token>(j);
        pool.run_detached([&pool, j, tok] {
            ran(pool, j);
            { cocls::thread_pool inner(1); auto f = inner.run([] { return 7L; }); if (f.wait() != 7) dsim::fail("C11.value", "private pool of job %d returned a wrong value", j); }
            if (!is_current(pool) && !pool.is_stopped()) dsim::fail("C11.not_on_worker", "after job %d destroyed its private pool the thread no longer counts as a worker of the pool it serves", j);
        });
        dsim::cell_set(SUBMITTED + j, 1);
        break; }
    default: {
        auto fut = std::make_unique<cocls::future<long>>(); auto p = fut->get_promise();
        k5(pool, *fut, j).detach();
        if (j % 2) { dsim::cell_set(SIB + j, 1); k5s(pool, *fut, j).detach(); }
        auto sp = p(500 + j);
        dsim::cell_set(SUBMITTED + j, 1);
        pool.resume(sp);
        if (!sp.empty()) dsim::fail("C11.suspend_point_not_emptied", "resume(suspend_point) of job %d left %zu coroutine(s) in the suspend point: they would be resumed by its destructor, on this thread", j, sp.size());
        bare.push_back({std::move(fut), j});
        break; }
    }
}
}

static int g_total; static std::vector<Pending> bare_store[3]; static std::vector<Pending> *g_bare[3];
static void judge();
void dsim_scenario() {
    for (auto &b : bare_store) b.clear();
    dsim::at_end(judge);
    int nworkers = 1 + dsim::choose(3);
    int nsub = 1 + dsim::choose(3);            // submitter threads
    int stop_mode = dsim::choose(6);           // 0 destructor only, 1 owner stop() concurrently, 2 stop from a job on a worker, 3 two concurrent stop(), 4 stop before any submission,
                                               // 5 the owner destroys the pool only after every job has run: nothing may be dropped, also no job that carries a bare handle
    int njobs[3], kinds[3][3]; int total = 0;
    int nprivate = 0;
    for (int s = 0; s < nsub; s++) { njobs[s] = 1 + dsim::choose(3); for (int k = 0; k < njobs[s]; k++) { kinds[s][k] = dsim::choose(7); if (kinds[s][k] == 6 && nprivate++) kinds[s][k] = 4; } total += njobs[s]; }     // at most one job with a private pool
    if (stop_mode == 2) kinds[0][0] = 4;
    dsim::plan_note("workers=%d stop_mode=%d", nworkers, stop_mode);
    dsim::cell_set(NWORKERS, nworkers);
    for (int s = 0; s < nsub; s++) { dsim::plan_note(" S%d:", s); for (int k = 0; k < njobs[s]; k++) dsim::plan_note("%d", kinds[s][k]); }
    std::vector<Pending> (&bare)[3] = bare_store;
    // submitter 0 first hands in a job that waits for the job it hands in next. Only where the pool is stopped after both have run:
    // stop() joins the workers before it discards the queue, so a job blocked on a still queued one is the application's deadlock, not the pool's
    bool dependent = nworkers >= 2 && stop_mode == 0 && dsim::flip();
    int dep_p = total, dep_q = total + 1; if (dependent) total += 2;
    dsim::plan_note(" dependent=%d", (int)dependent);
    int jid[3][3]; { int j = 0; for (int s = 0; s < nsub; s++) for (int k = 0; k < njobs[s]; k++) jid[s][k] = j++; }
    {
        auto pool = std::make_unique<cocls::thread_pool>(nworkers);
        if (stop_mode == 4) do_stop(*pool);
        std::vector<std::thread> th;
        for (int s = 0; s < nsub; s++) th.emplace_back([&, s] {
            if (s == 0 && dependent) {
                cocls::future<void> dep; auto dp = dep.get_promise();
                auto tp = std::make_shared<Token>(dep_p); auto tq = std::make_shared<Token>(dep_q);
                dsim::cell_set(KIND + dep_p, 4); dsim::cell_set(KIND + dep_q, 4);
                cocls::thread_pool &pl = *pool;
                pl.run_detached([&pl, &dep, j = dep_p, tp] { ran(pl, j); dep.sync(); });                         // occupies its worker until ...
                pl.run_detached([&pl, j = dep_q, tq, dp = std::move(dp)]() mutable { ran(pl, j); dp(); });       // ... this one has run (or was cancelled: the dropped promise resolves too)
                tp.reset(); tq.reset();
                dep.sync();                                                                                      // the owner of 'dep' learns of the resolution through the library ...
                vs::wait_cell_hb(TOKEN_GONE + dep_p); vs::wait_cell_hb(TOKEN_GONE + dep_q);                        // ... and both closures are gone before 'dep' leaves scope
            }
            for (int k = 0; k < njobs[s]; k++) submit(*pool, kinds[s][k], jid[s][k], stop_mode, bare[s]);
        });
        std::vector<std::thread> stoppers;
        if (stop_mode == 1 || stop_mode == 3) stoppers.emplace_back([&] { do_stop(*pool); });
        if (stop_mode == 3) stoppers.emplace_back([&] { do_stop(*pool); });
        for (auto &t : th) t.join();
        for (auto &t : stoppers) t.join();
        // a stop() issued from a worker must have returned before the owner may destroy the pool; if job 0 never ran there is none
        // (in this mode nobody else stops the pool, so job 0 is certain to run)
        if (stop_mode == 2) dsim::wait_cell(STOP_RETURNED, 1);
        if (stop_mode == 5) for (int j = 0; j < total; j++) dsim::wait_cell(RAN + j, 1);      // a job that never runs leaves everybody blocked: deadlock, not the recorded finding
        dsim::cell_set(STOP_CALLED, 1);
        pool.reset();                              // destructor: stops and joins every worker
    }
    g_total = total;
    for (int s = 0; s < 3; s++) g_bare[s] = &bare_store[s];
}

// runs after EVERY simulated thread (also a detached worker that called stop()) has finished
static void judge() {
    // Kinds with a cancel path first (full oracle) ...
    bool any_bare_forgotten = false; int forgotten = -1;
    for (int j = 0; j < g_total; j++) {
        long kind = dsim::cell_get(KIND + j), r = dsim::cell_get(RAN + j), c = dsim::cell_get(CANCELLED + j);
        bool bare_kind = kind == 1 || kind == 3 || kind == 5;
        if ((kind == 4 || kind == 6) && !r) { if (dsim::cell_get(TOKEN_GONE + j) == 1) { c = 1; } }      // closure destroyed without running = cancelled
        if ((kind == 4 || kind == 6) && dsim::cell_get(TOKEN_GONE + j) != 1) dsim::fail("C11.closure_not_released", "run_detached closure of job %d destroyed %ld times", j, dsim::cell_get(TOKEN_GONE + j));
        if (kind == 3) {   // the run(async) future reports the outcome
            for (int s = 0; s < 3; s++) for (auto &p : (*g_bare[s])) if (p.j == j && p.f->ready()) {
                try { long v = p.f->value(); if (v != 300 + j || !r) dsim::fail("C11.value", "run(async) future of job %d: value %ld, ran %ld", j, v, r); }
                catch (const cocls::await_canceled_exception &) { if (!r) c = 1; }
            }
        }
        if (kind == 0 && (j & 1) && r == 1 && dsim::cell_get(HOP_RAN + j) + dsim::cell_get(HOP_CANC + j) != 1) dsim::fail("C11.job_forgotten", "job %d handed itself in again with co_await current(): continued %ld times, cancelled %ld times", j, dsim::cell_get(HOP_RAN + j), dsim::cell_get(HOP_CANC + j));
        if (r + c == 1) continue;
        if (r + c > 1) dsim::fail("C11.ran_and_cancelled", "job %d (kind %ld): ran %ld, cancelled %ld", j, kind, r, c);
        if (!bare_kind) dsim::fail("C11.job_forgotten", "job %d (kind %ld) neither ran nor was cancelled", j, kind);
        any_bare_forgotten = true; forgotten = j;
    }
    for (int j = 0; j < g_total; j++) if (dsim::cell_get(SIB + j)) {
        long r2 = dsim::cell_get(SIB_RAN + j), c2 = dsim::cell_get(SIB_CANC + j);
        if (r2 + c2 > 1) dsim::fail("C11.ran_and_cancelled", "second coroutine of job %d: ran %ld, cancelled %ld", j, r2, c2);
        if (r2 + c2 == 0) { any_bare_forgotten = true; forgotten = j; }      // same recorded finding: a bare handle dropped by a stopped pool
    }
    // ... then the recorded finding: a submission that carries a bare coroutine handle has no cancel path
    if (any_bare_forgotten) {
        dsim::soft_fail("C11.bare_handle_dropped_by_stopped_pool", "job %d (kind %ld: %s) neither ran nor was cancelled: the pool was stopped before a worker dequeued it and its closure only holds a raw coroutine handle",
                        forgotten, dsim::cell_get(KIND + forgotten), dsim::cell_get(KIND + forgotten) == 1 ? "co_await pool(awaitable)" : dsim::cell_get(KIND + forgotten) == 3 ? "run(async)" : "resume(suspend_point)");
        for (int s = 0; s < 3; s++) for (auto &p : (*g_bare[s])) if (!p.f->ready()) p.f.release();   // a pending future cannot be destroyed: leak it (part of the finding)
    } else {
        for (int s = 0; s < 3; s++) for (auto &p : (*g_bare[s])) if (!p.f->ready()) dsim::fail("C11.job_forgotten", "future of job %d still pending although the job was accounted for", p.j);
    }
    // nothing allocated inside the run may survive in a static (the arena is reset for the next run)
    for (auto &b : bare_store) std::vector<Pending>().swap(b);
}
