// C08 — coroutine mutex: FIFO hand-off, no lost request, try_lock semantics (DESIGN §7 C08)
#include "common.h"
#include <cocls/mutex.h>
#include <cocls/async.h>
#include <cocls/future.h>
#include <cocls/thread_pool.h>
#include <memory>
#include <thread>
#include <vector>

const char *const dsim_property = "C08";
namespace {
enum { HOLDER = 0, PUB = 1, NGRANT = 2, TRY_OK = 3, GRANT_LOG = 100 /* order of grants */, GRANTS = 200, REQS = 300 };
constexpr int ORDERED_BASE = 0, RACER_BASE = 8;

struct Ctx { cocls::mutex mx; cocls::thread_pool *pool = nullptr; };

void on_grant(int me) {
    long h = dsim::cell_xchg(HOLDER, me + 1);
    if (h != 0) dsim::fail("C08.overlap", "request %d granted while %ld holds the mutex", me, h - 1);
    long k = dsim::cell_add(NGRANT, 1) - 1;
    dsim::cell_set(GRANT_LOG + k, me);
    dsim::cell_add(GRANTS + me, 1);
    dsim::event("grant", me, k);
}
void before_release(int me) {
    long h = dsim::cell_xchg(HOLDER, 0);
    if (h != me + 1) dsim::fail("C08.overlap", "%d releases but holder cell says %ld", me, h - 1);
}

// ordered waiter: a coroutine whose request is known to be published before the next one is issued
cocls::async<void> ordered_waiter(Ctx &c, int me, int rel) {
    dsim::cell_add(REQS + me, 1);
    auto own = co_await c.mx.lock();
    on_grant(me);
    dsim::yield();
    before_release(me);
    if (rel == 0) own.release();
    else if (rel == 1) co_await own.release();
    else if (rel == 2) { /* destructor of ownership at scope exit */ }
    else if (rel == 4) { auto sp = own.release(); c.pool->resume(sp); }      // the next owner is resumed on a thread-pool worker
    else {
        std::thread t([o = std::move(own)]() mutable { o.release(); });   // released from another thread
        t.join();
    }
}

cocls::async<void> racing_coro(Ctx &c, int me, int rounds) {
    for (int r = 0; r < rounds; r++) {
        dsim::cell_add(REQS + me, 1);
        auto own = co_await c.mx.lock();
        on_grant(me); dsim::yield(); before_release(me);
        if (r & 1) co_await own.release(); else own.release();
    }
}
void racing_blocking(Ctx &c, int me, int rounds) {
    for (int r = 0; r < rounds; r++) {
        dsim::cell_add(REQS + me, 1);
        cocls::mutex::ownership own(c.mx.lock());
        on_grant(me); dsim::yield(); before_release(me);
    }
}
void racing_try(Ctx &c, int me, int attempts) {
    for (int r = 0; r < attempts; r++) {
        unsigned long b0 = dsim::thread_blocks();
        long holder_before = dsim::cell_get(HOLDER);
        auto own = c.mx.try_lock();
        if (dsim::thread_blocks() != b0) dsim::fail("C08.try_lock_blocked", "try_lock parked the calling thread");
        if (own) {
            // HOLDER is set strictly inside ownership, so it must be empty now; and if it was occupied for the whole call, success is wrong
            on_grant(me); dsim::cell_add(TRY_OK, 1);
            (void)holder_before;
            dsim::yield(); before_release(me);
        } else {
            std::this_thread::yield();
        }
    }
}

void lost_request_classifier() {
    // everything is blocked: if the holder cell is empty, nobody owns the mutex, yet a request is still waiting
    if (dsim::cell_get(HOLDER) == 0) for (int i = 0; i < 16; i++) if (dsim::cell_get(REQS + i) > dsim::cell_get(GRANTS + i)) dsim::fail("C08.lost_request", "contender %d issued %ld requests, %ld were granted, nobody holds the mutex and nothing can run: the request was lost", i, dsim::cell_get(REQS + i), dsim::cell_get(GRANTS + i));
}
}

void dsim_scenario() {
    dsim::on_deadlock(lost_request_classifier);
    Ctx c;
    int n_ord = dsim::choose(5);              // 0..4 ordered waiters (0: only releases racing with requests in flight)
    int n_rac = dsim::choose(4);              // 0..3 racing contenders
    int rel[4], rk[3], rr[3];
    for (int i = 0; i < n_ord; i++) rel[i] = dsim::choose(5);
    for (int i = 0; i < n_rac; i++) { rk[i] = dsim::choose(3); rr[i] = 1 + dsim::choose(4); }
    int first_rel = dsim::choose(3);
    dsim::plan_note("ordered=%d racing=%d first_rel=%d rel=", n_ord, n_rac, first_rel);
    for (int i = 0; i < n_ord; i++) dsim::plan_note("%d", rel[i]);
    for (int i = 0; i < n_rac; i++) dsim::plan_note(" racer%d:kind%d,rounds%d", i, rk[i], rr[i]);

    std::unique_ptr<cocls::thread_pool> pool;       // only when some release goes through it; destroyed after every contender has finished
    for (int i = 0; i < n_ord; i++) if (rel[i] == 4 && !pool) { pool = std::make_unique<cocls::thread_pool>(1); c.pool = pool.get(); }
    // T0 takes the mutex first so that every ordered request must queue
    auto own0 = c.mx.try_lock();
    if (!own0) dsim::fail("C08.try_lock_free", "try_lock failed on a fresh mutex");
    on_grant(15);
    std::vector<std::thread> th;
    for (int i = 0; i < n_ord; i++) {
        th.emplace_back([&, i] {
            dsim::wait_cell(PUB, i);                       // schedule constraint only (no happens-before)
            auto fut = ordered_waiter(c, ORDERED_BASE + i, rel[i]).start();
            // the coroutine has returned control suspended: its request is published
            dsim::cell_set(PUB, i + 1);
            fut.wait();
        });
    }
    for (int i = 0; i < n_rac; i++) {
        th.emplace_back([&, i] {
            int me = RACER_BASE + i;
            if (rk[i] == 0) racing_coro(c, me, rr[i]).join();
            else if (rk[i] == 1) racing_blocking(c, me, rr[i]);
            else racing_try(c, me, rr[i] * 2);
        });
    }
    dsim::wait_cell(PUB, n_ord);
    // try_lock must fail now: T0 holds the mutex
    { auto t = c.mx.try_lock(); if (t) dsim::fail("C08.try_lock_held", "try_lock succeeded while the mutex is owned"); }
    before_release(15);
    if (first_rel == 0) own0.release();
    else if (first_rel == 1) { auto sp = own0.release(); sp.clear(); }
    else { std::thread t([o = std::move(own0)]() mutable { o.release(); }); t.join(); }
    for (auto &t : th) t.join();

    // oracle: ordered requests were granted in publication order
    long ng = dsim::cell_get(NGRANT);
    int expect = 0;
    for (long k = 0; k < ng; k++) {
        long who = dsim::cell_get(GRANT_LOG + (int)k);
        if (who >= ORDERED_BASE && who < ORDERED_BASE + 8) {
            if (who != expect) dsim::fail("C08.fifo", "ordered request %ld was granted before request %d although %d was published first", who, expect, expect);
            expect++;
        }
    }
    for (int i = 0; i < n_ord; i++) if (dsim::cell_get(GRANTS + i) != 1) dsim::fail("C08.lost_request", "ordered request %d granted %ld times", i, dsim::cell_get(GRANTS + i));
    for (int i = 0; i < n_rac; i++) if (rk[i] != 2 && dsim::cell_get(GRANTS + RACER_BASE + i) != rr[i]) dsim::fail("C08.lost_request", "racing contender %d granted %ld of %d requests", i, dsim::cell_get(GRANTS + RACER_BASE + i), rr[i]);
    if (dsim::cell_get(HOLDER) != 0) dsim::fail("C08.overlap", "holder cell not empty at the end");
    auto o = c.mx.try_lock();
    if (!o) dsim::fail("C08.locked_without_owner", "every ownership was released but try_lock fails: mutex locked with no owner");
    o.release();
    auto o2 = c.mx.try_lock();
    if (!o2) dsim::fail("C08.relock", "mutex cannot be locked again after release");
}
