// common.h — helpers shared by the scenarios
#pragma once
#include "dsim.h"
#include <cstdio>
#include <cstring>
#include <exception>
#include <stdexcept>

// names that collide with <unistd.h> (pause) are always qualified: no `using namespace cocls`.

namespace vs {

// dsim cells carry no happens-before by design (a scenario that talks through them leaves only the LIBRARY's synchronisation to order
// the parties). Where the harness itself hands an object to another thread - something a real program would do through a mutex or
// an atomic flag of its own - it uses these: the release / acquire pair a correct user would have had. Channel = cell index mod 64.
inline void cell_set_hb(int i, long v) { dsim::hb_release(i); dsim::cell_set(i, v); }
inline long cell_add_hb(int i, long d) { dsim::hb_release(i); return dsim::cell_add(i, d); }
inline long cell_get_hb(int i) { long v = dsim::cell_get(i); dsim::hb_acquire(i); return v; }
inline void wait_cell_hb(int i, long atleast = 1) { dsim::wait_cell(i, atleast); dsim::hb_acquire(i); }

// Cell ranges are allocated statically per scenario; this is only a convenience for counters.
struct Counter {
    int idx;
    long get() const { return dsim::cell_get(idx); }
    long inc(long d = 1) const { return dsim::cell_add(idx, d); }
    void set(long v) const { dsim::cell_set(idx, v); }
};

// Instance-counted value with canary: catches leaked / double-destroyed / used-after-destruction values.
// Counters live in dsim cells [CNT_BASE, CNT_BASE+4): constructed, destroyed, moved-from reads, bad canary
constexpr int CNT_BASE = 8000;
struct Counted {
    static constexpr unsigned LIVE = 0xC0FFEE11u, DEAD = 0xDEADBEEFu, MOVED = 0x0BADF00Du;
    unsigned canary; long v; long w2; long w3;
    static long mix2(long v) { return v * 7 + 3; }
    static long mix3(long v) { return ~v; }
    Counted() : canary(LIVE), v(0), w2(mix2(0)), w3(mix3(0)) { dsim::cell_add(CNT_BASE, 1); }
    explicit Counted(long x) : canary(LIVE), v(x), w2(mix2(x)), w3(mix3(x)) { dsim::cell_add(CNT_BASE, 1); }
    Counted(const Counted &o) : canary(LIVE), v(o.v), w2(o.w2), w3(o.w3) { o.check("copy-from"); dsim::cell_add(CNT_BASE, 1); }
    Counted(Counted &&o) noexcept : canary(LIVE), v(o.v), w2(o.w2), w3(o.w3) { o.check("move-from"); o.canary = MOVED; dsim::cell_add(CNT_BASE, 1); }
    Counted &operator=(const Counted &o) { o.check("assign-from"); alive("assign-to"); v = o.v; w2 = o.w2; w3 = o.w3; canary = LIVE; return *this; }
    Counted &operator=(Counted &&o) noexcept { o.check("move-assign-from"); alive("move-assign-to"); v = o.v; w2 = o.w2; w3 = o.w3; canary = LIVE; o.canary = MOVED; return *this; }
    ~Counted() { alive("destroy"); canary = DEAD; dsim::cell_add(CNT_BASE + 1, 1); }
    void alive(const char *what) const { if (canary != LIVE && canary != MOVED) dsim::fail("counted.dead_instance", "%s on an instance that is not alive (canary %08x)", what, canary); }
    void check(const char *what) const {
        if (canary != LIVE) dsim::fail("counted.dead_instance", "%s on an instance that is not a live value (canary %08x)", what, canary);
        if (w2 != mix2(v) || w3 != mix3(v)) dsim::fail("payload.torn", "%s: payload words disagree (v=%ld w2=%ld w3=%ld)", what, v, w2, w3);
    }
    long value() const { check("read"); return v; }
    static long constructed() { return dsim::cell_get(CNT_BASE); }
    static long destroyed() { return dsim::cell_get(CNT_BASE + 1); }
    static void expect_balanced(const char *oracle) {
        if (constructed() != destroyed()) dsim::fail(oracle, "instance-counted value: %ld constructed, %ld destroyed", constructed(), destroyed());
    }
};

struct TestError : std::exception {
    long code;
    explicit TestError(long c) : code(c) {}
    const char *what() const noexcept override { return "TestError"; }
};
inline std::exception_ptr make_err(long code) { return std::make_exception_ptr(TestError(code)); }

} // namespace vs
