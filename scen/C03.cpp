// C03 — cross-thread operations are data-race free and publish results safely (DESIGN §3, §7 C03)
// Oracle: the happens-before engine of the simulator (races are violations here) + payload integrity.
// Harness rule: everything the harness itself shares between threads goes through dsim cells (invisible to the
// detector) or is ordered by thread creation / join, so that only the LIBRARY's synchronisation orders the parties.
#include "common.h"
#include <cocls/future.h>
#include <cocls/async.h>
#include <cocls/mutex.h>
#include <cocls/queue.h>
#include <cocls/thread_pool.h>
#include <cocls/scheduler.h>
#include <cocls/publisher.h>
#include <cocls/coro_storage.h>
#include <cocls/shared_future.h>
#include <thread>
#include <vector>

const char *const dsim_property = "C03";
namespace {
enum { RESOLVED = 0, DONE = 1, SUM = 2, OBS = 10 };
constexpr long VAL = 31337;

// ------------------------------------------------------------------ family A: future / promise
using Fut = cocls::future<vs::Counted>;
void check_payload(Fut &f, int rk, int who) {
    try {
        long v = f.value().value();            // Counted::value() verifies all payload words
        if ((rk != 0 && rk != 4) || v != VAL) dsim::fail("C03.payload", "waiter %d read %ld (resolver kind %d)", who, v, rk);
    } catch (const vs::TestError &e) { if (rk != 1 || e.code != 5) dsim::fail("C03.payload", "waiter %d got exception %ld", who, e.code); }
    catch (const cocls::await_canceled_exception &) { if (rk < 2) dsim::fail("C03.payload", "waiter %d saw no-value for resolver kind %d", who, rk); }
    catch (const cocls::value_not_ready_exception &) { dsim::fail("C03.payload", "waiter %d learned readiness but value() says not ready", who); }
    dsim::cell_add(OBS + who, 1);
}
cocls::async<void> co_waiter(Fut &f, int rk, int who) {
    try { vs::Counted &r = co_await f; if (r.value() != VAL || (rk != 0 && rk != 4)) dsim::fail("C03.payload", "coroutine waiter %d read %ld", who, r.v); }
    catch (const vs::TestError &e) { if (rk != 1 || e.code != 5) dsim::fail("C03.payload", "coroutine waiter %d got exception %ld", who, e.code); }
    catch (const cocls::await_canceled_exception &) { if (rk < 2) dsim::fail("C03.payload", "coroutine waiter %d saw no-value", who); }
    dsim::cell_add(OBS + who, 1);
}
cocls::promise<vs::Counted> shared;         // namespace scope, not function-local: a guarded static would cost one step in the first run of a process only
void family_future() {
    int rk = dsim::choose(5);                  // value, exception, drop, destruction, 4: value racing with an explicit drop on the shared promise
    int nw = 1 + dsim::choose(3);
    int wk[3]; for (int i = 0; i < nw; i++) wk[i] = dsim::choose(5);
    dsim::plan_note("future: resolver=%d waiters=", rk); for (int i = 0; i < nw; i++) dsim::plan_note("%d", wk[i]);
    {
        Fut f;
        std::vector<std::thread> th;
        if (rk == 4) {
            // two resolvers share the promise by reference (the documented thread-safe use); whoever wins, waiters must see a complete result
            shared = f.get_promise();
            th.emplace_back([] { bool ok = shared(VAL); dsim::cell_add(RESOLVED, ok ? 1 : 0); dsim::cell_add(DONE, 1); });
            th.emplace_back([] { bool ok = shared(cocls::drop); dsim::cell_add(RESOLVED, ok ? 1 : 0); dsim::cell_add(DONE, 1); });
        } else
        th.emplace_back([p = f.get_promise(), rk]() mutable {
            switch (rk) {
            case 0: p(VAL); break;
            case 1: p(vs::make_err(5)); break;
            case 2: p(cocls::drop); break;
            default: { cocls::promise<vs::Counted> q(std::move(p)); } break;
            }
            dsim::cell_set(RESOLVED, 1);
        });
        for (int i = 0; i < nw; i++) th.emplace_back([&f, rk, i, k = wk[i]] {
            switch (k) {
            case 0: co_waiter(f, rk, i).join(); break;
            case 1: f.sync(); check_payload(f, rk, i); break;
            case 2: while (!f.ready()) std::this_thread::yield(); check_payload(f, rk, i); break;      // polling
            case 3: dsim::wait_cell(RESOLVED); co_waiter(f, rk, i).join(); break;                      // late: refused subscription / ready fast path
            default: dsim::wait_cell(RESOLVED); { bool hv = f.has_value(); (void)hv; } check_payload(f, rk, i); break;
            }
        });
        for (auto &t : th) t.join();
        for (int i = 0; i < nw; i++) if (dsim::cell_get(OBS + i) != 1) dsim::fail("C03.payload", "waiter %d observed the result %ld times", i, dsim::cell_get(OBS + i));
        if (rk == 4 && dsim::cell_get(RESOLVED) != 1) dsim::fail("C03.payload", "%ld of two competing resolutions reported success", dsim::cell_get(RESOLVED));
    }
    vs::Counted::expect_balanced("C03.instances");
}

// ------------------------------------------------------------------ family B: coroutine mutex protects plain data
struct Shared { cocls::mutex mx; long a = 0; long b = 0; };
cocls::async<void> mx_coro(Shared &s, int rounds, int rel) {
    for (int r = 0; r < rounds; r++) {
        auto own = co_await s.mx.lock();
        s.a++; s.b += 2;                       // plain accesses: ordered only by the mutex
        if (rel == 0) own.release(); else if (rel == 1) co_await own.release();
    }
}
void family_mutex() {
    int n = 2 + dsim::choose(2);
    int kind[3], rounds[3], rel[3]; long total = 0;
    for (int i = 0; i < n; i++) { kind[i] = dsim::choose(3); rounds[i] = 1 + dsim::choose(2); rel[i] = dsim::choose(3); total += rounds[i]; }
    dsim::plan_note("mutex: n=%d", n); for (int i = 0; i < n; i++) dsim::plan_note(" [k%d r%d rel%d]", kind[i], rounds[i], rel[i]);
    Shared s;
    std::vector<std::thread> th;
    for (int i = 0; i < n; i++) th.emplace_back([&s, k = kind[i], r = rounds[i], rl = rel[i]] {
        if (k == 0) mx_coro(s, r, rl).join();
        else if (k == 1) for (int j = 0; j < r; j++) { cocls::mutex::ownership o(s.mx.lock()); s.a++; s.b += 2; }
        else for (int j = 0; j < r;) { auto o = s.mx.try_lock(); if (o) { s.a++; s.b += 2; j++; } else std::this_thread::yield(); }
    });
    for (auto &t : th) t.join();
    if (s.a != total || s.b != 2 * total) dsim::fail("C03.payload", "mutex-protected counters are %ld/%ld, expected %ld/%ld", s.a, s.b, total, 2 * total);
}

// ------------------------------------------------------------------ family C: awaitable queues carry payloads between threads
struct Msg { long a, b, c; long check() const { if (b != a * 2 || c != a * 3) dsim::fail("C03.payload", "torn message %ld/%ld/%ld", a, b, c); return a; } };
cocls::async<void> q_consumer(cocls::queue<Msg> &q, int n) { for (int i = 0; i < n;) { try { Msg m = co_await q.pop(); m.check(); dsim::cell_add(SUM, m.a); i++; } catch (const vs::TestError &) {} } }
cocls::async<void> lq_consumer(cocls::limited_queue<Msg> &q, int n) { for (int i = 0; i < n; i++) { Msg m = co_await q.pop(); m.check(); dsim::cell_add(SUM, m.a); } }
void family_queue() {
    int np = 1 + dsim::choose(2), nc = 1 + dsim::choose(2), per = 1 + dsim::choose(3); bool limited = dsim::flip(); int ck[2] = {(int)dsim::choose(2), (int)dsim::choose(2)}; bool unblocker = dsim::flip();
    dsim::plan_note("queue: producers=%d consumers=%d per=%d limited=%d", np, nc, per, (int)limited);
    int total = np * per; long expect = 0;
    std::vector<std::thread> th;
    if (!limited) {
        cocls::queue<Msg> q;
        for (int p = 0; p < np; p++) th.emplace_back([&q, p, per] { for (int i = 0; i < per; i++) { long v = p * 100 + i + 1; q.push(Msg{v, v * 2, v * 3}); dsim::cell_add(OBS + 9, (long)q.size() + (q.empty() ? 1 : 0)); } });
        if (unblocker) th.emplace_back([&q] { for (int i = 0; i < 2; i++) { (void)(bool)q.unblock_pop(vs::make_err(1)); std::this_thread::yield(); } });
        int given = 0;
        for (int c = 0; c < nc; c++) { int n = c == nc - 1 ? total - given : total / nc; given += n; th.emplace_back([&q, n, k = ck[c]] { if (k) q_consumer(q, n).join(); else for (int i = 0; i < n;) { auto f = q.pop(); try { Msg m = f.wait(); m.check(); dsim::cell_add(SUM, m.a); i++; } catch (const vs::TestError &) {} } }); }
        for (auto &t : th) t.join();
    } else {
        cocls::limited_queue<Msg> q(1 + dsim::choose(2));
        // a push failed by unblock_push withdrew its item: the producer pushes it again, so the sum is unchanged
        for (int p = 0; p < np; p++) th.emplace_back([&q, p, per] { for (int i = 0; i < per;) { long v = p * 100 + i + 1; auto f = q.push(Msg{v, v * 2, v * 3}); try { f.wait(); i++; } catch (const vs::TestError &) {} dsim::cell_add(OBS + 9, (long)q.size()); } });
        if (unblocker) th.emplace_back([&q] { for (int i = 0; i < 2; i++) { (void)(bool)q.unblock_push(vs::make_err(2)); std::this_thread::yield(); } });
        int given = 0;
        for (int c = 0; c < nc; c++) { int n = c == nc - 1 ? total - given : total / nc; given += n; th.emplace_back([&q, n, k = ck[c]] { if (k) lq_consumer(q, n).join(); else for (int i = 0; i < n; i++) { auto f = q.pop(); Msg m = f.wait(); m.check(); dsim::cell_add(SUM, m.a); } }); }
        for (auto &t : th) t.join();
    }
    for (int p = 0; p < np; p++) for (int i = 0; i < per; i++) expect += p * 100 + i + 1;
    if (dsim::cell_get(SUM) != expect) dsim::fail("C03.payload", "queue delivered payload sum %ld, expected %ld", dsim::cell_get(SUM), expect);
}

// ------------------------------------------------------------------ family D: thread pool
cocls::async<long> pool_coro(cocls::thread_pool &pool, long *in, long *out) {
    long v = *in;                 // written by the submitting thread before submission
    try { co_await pool; *out = v * 2; } catch (const cocls::await_canceled_exception &) { *out = -1; }
    co_return v + 1;
}
void family_pool() {
    int nw = 1 + dsim::choose(2), nj = 1 + dsim::choose(3); int stop_mode = dsim::choose(3);
    dsim::plan_note("pool: workers=%d jobs=%d stop_mode=%d", nw, nj, stop_mode);
    long in[3] = {0, 0, 0}, out[3] = {0, 0, 0}, out2[3] = {0, 0, 0};
    {
        cocls::thread_pool pool(nw);
        std::vector<std::thread> th;
        for (int j = 0; j < nj; j++) th.emplace_back([&pool, j, pin = &in[j], pout = &out[j], pout2 = &out2[j]] {
            *pin = 10 + j;
            if (j % 2 == 0) {
                auto f = pool.run([pin, pout, j] { *pout = *pin * 3; if (j == 2) throw vs::TestError(*pin); return *pin; });      // the third job reports an exception across threads
                try { long r = f.wait(); if (j == 2 || r != 10 + j || *pout != (10 + j) * 3) dsim::fail("C03.payload", "pool.run result %ld out %ld", r, *pout); }
                catch (const cocls::await_canceled_exception &) {}
                catch (const vs::TestError &e) { if (j != 2 || e.code != 12 || *pout != 36) dsim::fail("C03.payload", "pool.run exception code %ld out %ld", e.code, *pout); }
            } else {
                auto f = pool_coro(pool, pin, pout2).start();
                long r = f.wait(); if (r != 11 + j || (*pout2 != (10 + j) * 2 && *pout2 != -1)) dsim::fail("C03.payload", "pool coroutine result %ld out %ld", r, *pout2);
            }
        });
        std::thread stopper;
        if (stop_mode == 1) stopper = std::thread([&pool] { pool.stop(); });
        // the stop state is polled while nobody stops (2) and while another thread is inside stop() (1)
        if (stop_mode >= 1) for (int k = 0; k < 3; k++) { dsim::cell_add(OBS + 9, (pool.is_stopped() ? 1 : 0) + (pool.any_enqueued() ? 2 : 0)); std::this_thread::yield(); }
        for (auto &t : th) t.join();
        if (stopper.joinable()) stopper.join();
    }
}

// ------------------------------------------------------------------ family E: scheduler (thread mode): schedule / cancel from other threads
void family_scheduler() {
    int n = 1 + dsim::choose(3); bool cancel = dsim::flip();
    dsim::plan_note("scheduler: sleepers=%d cancel=%d", n, (int)cancel);
    std::thread thr;
    {
        cocls::scheduler sch(thr);
        static char tags[4];
        long data[3] = {0, 0, 0};
        std::vector<std::thread> th;
        for (int i = 0; i < n; i++) th.emplace_back([&sch, i, d = &data[i]] {
            *d = 100 + i;
            auto f = sch.sleep_for(std::chrono::milliseconds(1 + i), &tags[i]);
            try { f.wait(); } catch (const cocls::await_canceled_exception &) {}
            if (*d != 100 + i) dsim::fail("C03.payload", "sleeper data changed");
            dsim::cell_add(DONE, 1);
        });
        std::thread c;
        if (cancel) c = std::thread([&sch] { (void)(bool)sch.cancel(&tags[0]); });
        for (auto &t : th) t.join();
        if (c.joinable()) c.join();
    }
    thr.join();
}

// ------------------------------------------------------------------ family F: publisher thread against subscriber threads
// (no co_await inside a loop condition: g++ 12 miscompiles that form)
cocls::async<void> sub_coro(cocls::subscriber<Msg> &s) { for (;;) { bool ok = co_await s.next(); if (!ok) break; dsim::cell_add(SUM, s.value().check() > 0 ? 1 : 0); dsim::cell_add(OBS + 7, (long)s.position()); } }
void family_publisher() {
    int ns = 1 + dsim::choose(2), np = 1 + dsim::choose(4); int kind[2] = {(int)dsim::choose(2), (int)dsim::choose(2)};
    int mode[2] = {(int)dsim::choose(3), (int)dsim::choose(3)};      // all_values, skip_if_behind, skip_to_recent
    dsim::plan_note("publisher: subscribers=%d publishes=%d modes=%d%d", ns, np, mode[0], mode[1]);
    cocls::publisher<Msg> pub(4, 1);
    std::vector<std::thread> th;
    for (int i = 0; i < ns; i++) th.emplace_back([&pub, i, k = kind[i], m = mode[i]] {
        cocls::subscriber<Msg> s(pub, m == 0 ? cocls::subscribtion_type::all_values : m == 1 ? cocls::subscribtion_type::skip_if_behind : cocls::subscribtion_type::skip_to_recent);
        dsim::cell_add(OBS + 8, 1);
        dsim::cell_add(OBS + 7, (long)s.position());          // the subscriber's own accessor, while other threads subscribe and publish
        if (k) sub_coro(s).join(); else while (s.next()) { s.value().check(); dsim::cell_add(SUM, 1); dsim::cell_add(OBS + 7, (long)s.position()); }
    });
    bool two_publishers = dsim::flip();
    std::thread pt2;
    if (two_publishers) pt2 = std::thread([&pub, np] { for (long k = 1; k <= np; k++) pub.publish(Msg{1000 + k, (1000 + k) * 2, (1000 + k) * 3}); });
    std::thread pt([&pub, np, ns] {
        for (long k = 1; k <= np; k++) pub.publish(Msg{k, k * 2, k * 3});
        dsim::wait_cell(OBS + 8, ns);       // nobody inside subscribe() when the stream is closed (schedule constraint only)
    });
    pt.join(); if (pt2.joinable()) pt2.join();
    pub.close();
    for (auto &t : th) t.join();
}

// ------------------------------------------------------------------ family G: thread-safe reusable storage shared by two threads
cocls::with_allocator<cocls::reusable_storage_mtsafe, cocls::async<long>> stor_coro(cocls::reusable_storage_mtsafe &, long v, cocls::future<void> *gate) {
    long local[6]; for (int i = 0; i < 6; i++) local[i] = v + i;
    if (gate) co_await *gate;
    long s = 0; for (int i = 0; i < 6; i++) s += local[i];
    co_return s;
}
void family_storage() {
    int rounds = 1 + dsim::choose(3); bool susp = dsim::flip();
    dsim::plan_note("storage: rounds=%d suspend=%d", rounds, (int)susp);
    cocls::reusable_storage_mtsafe st;
    std::thread th[2];
    for (int t = 0; t < 2; t++) th[t] = std::thread([&st, t, rounds, susp] {
        for (int r = 0; r < rounds; r++) {
            cocls::future<void> gate; cocls::promise<void> gp; if (susp) gp = gate.get_promise();
            long v = 100 * (t + 1) + r;
            auto f = stor_coro(st, v, susp ? &gate : nullptr).start();
            if (susp) gp();
            long got = f.wait();
            if (got != 6 * v + 15) dsim::fail("C03.payload", "frame on shared storage returned %ld", got);
        }
    });
    for (auto &t : th) t.join();
}

// ------------------------------------------------------------------ family H: shared_future (a future awaited / polled / dropped through copies while another thread resolves it)
using SF = cocls::shared_future<vs::Counted>;
void sf_check(SF &sf, int rk, int who) {
    try { long v = sf.value().value(); if (rk != 0 || v != VAL) dsim::fail("C03.payload", "shared_future user %d read %ld (resolver kind %d)", who, v, rk); }
    catch (const vs::TestError &e) { if (rk != 1 || e.code != 5) dsim::fail("C03.payload", "shared_future user %d got exception %ld", who, e.code); }
    catch (const cocls::await_canceled_exception &) { if (rk != 2) dsim::fail("C03.payload", "shared_future user %d saw no-value for resolver kind %d", who, rk); }
}
cocls::async<void> sf_co_user(SF sf, int rk, int who) {
    try { vs::Counted &r = co_await sf; if (rk != 0 || r.value() != VAL) dsim::fail("C03.payload", "shared_future coroutine %d read %ld", who, r.v); }
    catch (const vs::TestError &e) { if (rk != 1 || e.code != 5) dsim::fail("C03.payload", "shared_future coroutine %d got exception %ld", who, e.code); }
    catch (const cocls::await_canceled_exception &) { if (rk != 2) dsim::fail("C03.payload", "shared_future coroutine %d saw no-value", who); }
}
void family_shared() {
    int ctor = dsim::choose(3);              // 0 promise-taking function, 1 future-returning function, 2 default-constructed + get_promise()
    int rk = dsim::choose(3);                // value, exception, drop
    int nu = dsim::choose(3); int uk[2]; for (int i = 0; i < nu; i++) uk[i] = dsim::choose(4);
    bool in_ctor = ctor != 2 && dsim::flip(); // the init function itself starts the resolver thread: resolution may overtake the constructor
    bool drop_early = dsim::flip();
    dsim::plan_note("shared_future: ctor=%d resolver=%d in_ctor=%d drop_early=%d users=", ctor, rk, (int)in_ctor, (int)drop_early); for (int i = 0; i < nu; i++) dsim::plan_note("%d", uk[i]);
    {
        std::thread res; cocls::promise<vs::Counted> prom;
        auto resolver = [rk](cocls::promise<vs::Counted> p) { return std::thread([q = std::move(p), rk]() mutable { if (rk == 0) q(VAL); else if (rk == 1) q(vs::make_err(5)); else q(cocls::drop); }); };
        auto take = [&](cocls::promise<vs::Counted> p) { if (in_ctor) res = resolver(std::move(p)); else prom = std::move(p); };
        std::unique_ptr<SF> sf;
        if (ctor == 0) sf = std::make_unique<SF>([&](cocls::promise<vs::Counted> p) { take(std::move(p)); });
        else if (ctor == 1) sf = std::make_unique<SF>([&]() -> cocls::future<vs::Counted> { return [&](cocls::promise<vs::Counted> p) { take(std::move(p)); }; });
        else { sf = std::make_unique<SF>(); prom = sf->get_promise(); }
        std::vector<std::thread> th;
        for (int i = 0; i < nu; i++) th.emplace_back([copy = *sf, i, k = uk[i], rk]() mutable {
            switch (k) {
            case 0: sf_co_user(copy, rk, i).join(); break;
            case 1: copy.sync(); sf_check(copy, rk, i); break;
            case 2: break;                                                   // dropped at once
            default: while (!copy.ready()) std::this_thread::yield(); sf_check(copy, rk, i); break;
            }
        });
        if (!in_ctor) res = resolver(std::move(prom));
        if (drop_early) sf.reset();                                          // possibly the last handle, possibly after the resolution: whoever destroys the state must see the result
        res.join();
        for (auto &t : th) t.join();
        if (sf) sf_check(*sf, rk, 9);
    }
    vs::Counted::expect_balanced("C03.instances");
}
} // namespace

void dsim_scenario() {
    dsim::config().race_is_violation = true;
    switch (dsim::choose(8)) {
    case 0: family_future(); break;
    case 1: family_mutex(); break;
    case 2: family_queue(); break;
    case 3: family_pool(); break;
    case 4: family_scheduler(); break;
    case 5: family_publisher(); break;
    case 6: family_storage(); break;
    default: family_shared(); break;
    }
}
