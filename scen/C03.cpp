// C03 — cross-thread operations are data-race free and publish results safely (DESIGN §3, §7 C03)
// Oracle: the happens-before engine of the simulator (races are violations here) + payload integrity.
// Harness rule: everything the harness itself shares between threads goes through dsim cells (invisible to the
// detector) or is ordered by thread creation / join, so that only the LIBRARY's synchronisation orders the parties.
#include "common.h"
#include <cocls/future.h>
#include <cocls/async.h>
#include <cocls/mutex.h>
#include <cocls/queue.h>
#include <cocls/thread_pool.h>
#include <cocls/scheduler.h>
#include <cocls/publisher.h>
#include <cocls/coro_storage.h>
#include <thread>
#include <vector>

const char *const dsim_property = "C03";
namespace {
enum { RESOLVED = 0, DONE = 1, SUM = 2, OBS = 10 };
constexpr long VAL = 31337;

// ------------------------------------------------------------------ family A: future / promise
using Fut = cocls::future<vs::Counted>;
void check_payload(Fut &f, int rk, int who) {
    try {
        long v = f.value().value();            // Counted::value() verifies all payload words
        if (rk != 0 || v != VAL) dsim::fail("C03.payload", "waiter %d read %ld (resolver kind %d)", who, v, rk);
    } catch (const vs::TestError &e) { if (rk != 1 || e.code != 5) dsim::fail("C03.payload", "waiter %d got exception %ld", who, e.code); }
    catch (const cocls::await_canceled_exception &) { if (rk < 2) dsim::fail("C03.payload", "waiter %d saw no-value for resolver kind %d", who, rk); }
    catch (const cocls::value_not_ready_exception &) { dsim::fail("C03.payload", "waiter %d learned readiness but value() says not ready", who); }
    dsim::cell_add(OBS + who, 1);
}
cocls::async<void> co_waiter(Fut &f, int rk, int who) {
    try { vs::Counted &r = co_await f; if (r.value() != VAL || rk != 0) dsim::fail("C03.payload", "coroutine waiter %d read %ld", who, r.v); }
    catch (const vs::TestError &e) { if (rk != 1 || e.code != 5) dsim::fail("C03.payload", "coroutine waiter %d got exception %ld", who, e.code); }
    catch (const cocls::await_canceled_exception &) { if (rk < 2) dsim::fail("C03.payload", "coroutine waiter %d saw no-value", who); }
    dsim::cell_add(OBS + who, 1);
}
void family_future() {
    int rk = dsim::choose(4);                  // value, exception, drop, destruction
    int nw = 1 + dsim::choose(3);
    int wk[3]; for (int i = 0; i < nw; i++) wk[i] = dsim::choose(5);
    dsim::plan_note("future: resolver=%d waiters=", rk); for (int i = 0; i < nw; i++) dsim::plan_note("%d", wk[i]);
    {
        Fut f;
        std::vector<std::thread> th;
        th.emplace_back([p = f.get_promise(), rk]() mutable {
            switch (rk) {
            case 0: p(VAL); break;
            case 1: p(vs::make_err(5)); break;
            case 2: p(cocls::drop); break;
            default: { cocls::promise<vs::Counted> q(std::move(p)); } break;
            }
            dsim::cell_set(RESOLVED, 1);
        });
        for (int i = 0; i < nw; i++) th.emplace_back([&f, rk, i, k = wk[i]] {
            switch (k) {
            case 0: co_waiter(f, rk, i).join(); break;
            case 1: f.sync(); check_payload(f, rk, i); break;
            case 2: while (!f.ready()) std::this_thread::yield(); check_payload(f, rk, i); break;      // polling
            case 3: dsim::wait_cell(RESOLVED); co_waiter(f, rk, i).join(); break;                      // late: refused subscription / ready fast path
            default: dsim::wait_cell(RESOLVED); { bool hv = f.has_value(); (void)hv; } check_payload(f, rk, i); break;
            }
        });
        for (auto &t : th) t.join();
        for (int i = 0; i < nw; i++) if (dsim::cell_get(OBS + i) != 1) dsim::fail("C03.payload", "waiter %d observed the result %ld times", i, dsim::cell_get(OBS + i));
    }
    vs::Counted::expect_balanced("C03.instances");
}

// ------------------------------------------------------------------ family B: coroutine mutex protects plain data
struct Shared { cocls::mutex mx; long a = 0; long b = 0; };
cocls::async<void> mx_coro(Shared &s, int rounds, int rel) {
    for (int r = 0; r < rounds; r++) {
        auto own = co_await s.mx.lock();
        s.a++; s.b += 2;                       // plain accesses: ordered only by the mutex
        if (rel == 0) own.release(); else if (rel == 1) co_await own.release();
    }
}
void family_mutex() {
    int n = 2 + dsim::choose(2);
    int kind[3], rounds[3], rel[3]; long total = 0;
    for (int i = 0; i < n; i++) { kind[i] = dsim::choose(3); rounds[i] = 1 + dsim::choose(2); rel[i] = dsim::choose(3); total += rounds[i]; }
    dsim::plan_note("mutex: n=%d", n); for (int i = 0; i < n; i++) dsim::plan_note(" [k%d r%d rel%d]", kind[i], rounds[i], rel[i]);
    Shared s;
    std::vector<std::thread> th;
    for (int i = 0; i < n; i++) th.emplace_back([&s, k = kind[i], r = rounds[i], rl = rel[i]] {
        if (k == 0) mx_coro(s, r, rl).join();
        else if (k == 1) for (int j = 0; j < r; j++) { cocls::mutex::ownership o(s.mx.lock()); s.a++; s.b += 2; }
        else for (int j = 0; j < r;) { auto o = s.mx.try_lock(); if (o) { s.a++; s.b += 2; j++; } else std::this_thread::yield(); }
    });
    for (auto &t : th) t.join();
    if (s.a != total || s.b != 2 * total) dsim::fail("C03.payload", "mutex-protected counters are %ld/%ld, expected %ld/%ld", s.a, s.b, total, 2 * total);
}
} // namespace

void family_queue();
void family_pool();
void family_scheduler();
void family_publisher();
void family_storage();

void dsim_scenario() {
    dsim::config().race_is_violation = true;
    switch (dsim::choose(2)) {
    case 0: family_future(); break;
    default: family_mutex(); break;
    }
}
