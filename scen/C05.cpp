// C05 — coroutine-mode scheduling: run-to-suspension, FIFO ready queue, full drain (DESIGN §7 C05)
// Scripted coroutines record segment begin/end events; an executable reference model of the per-thread ready queue
// (batches in FIFO order, direct transfers exempt) judges them while the program runs. Clauses S1-S6 as in DESIGN.
#include "common.h"
#include <cocls/async.h>
#include <cocls/future.h>
#include <cocls/mutex.h>
#include <cocls/queue.h>
#include <cocls/generator.h>
#include <algorithm>
#include <deque>
#include <memory>
#include <set>
#include <thread>
#include <vector>

const char *const dsim_property = "C05";
namespace {
constexpr int MAXC = 8, MAXSTEP = 6, NF = 4;
enum Op { PAUSE = 0, RESOLVE_DISCARD, RESOLVE_AWAIT, AWAIT_FUT, DETACH_CHILD, AWAIT_CHILD, START_CHILD, LOCK_REL_DISCARD, LOCK_REL_AWAIT, Q_PUSH, Q_POP, MERGE_DISCARD, CSP_DISCARD, CSP_AWAIT, CSP_HOLD, INSTALL_CALL, NOPS };
struct StepD { int op, arg; };
struct Script { int n; StepD st[MAXSTEP]; };

struct Model {
    enum St { NOTSTARTED, RUNNING, SUSPENDED, READY, DONE };
    int ncoro = 0; Script sc[MAXC];
    St state[MAXC]; bool active[MAXC]; int segs[MAXC]; int parent[MAXC]; bool spawned[MAXC];
    std::vector<int> running;                 // nesting of segments on this thread (nested start())
    std::vector<bool> in_nested_call;         // parallel to running: the coroutine is inside a start() call
    std::vector<bool> draining;               // parallel to running: the coroutine is inside coro_queue::install_queue_and_call(), which flushes the ready queue before it returns
    std::deque<std::vector<int>> ready;       // FIFO of batches
    std::set<int> direct;                     // coroutines that may run next as a direct transfer / direct resume
    std::vector<int> carried;                 // coroutines carried by a suspend point that ordinary code discarded: resumed one by one under one queue
    std::set<int> one_of;                     // members of an awaited suspend point: exactly one runs directly, the others stay queued
    bool fut_resolved[NF]; std::vector<int> fut_waiters[NF];
    int mx_owner = -1; std::deque<int> mx_wait;
    std::deque<long> q_items; std::deque<int> q_wait;
    std::vector<std::vector<int>> pause_snap; std::vector<int> pause_owner;
    bool outer_active = false;
    bool last_end_transfers = true;           // did the last segment end hand control to another coroutine (symmetric transfer), or return to the bottom of the chain?

    void reset() { *this = Model(); for (int i = 0; i < MAXC; i++) { state[i] = NOTSTARTED; active[i] = false; segs[i] = 0; parent[i] = -1; spawned[i] = false; } for (auto &b : fut_resolved) b = false; }
    void batch(std::vector<int> m) { if (m.empty()) return; for (int x : m) state[x] = READY; ready.push_back(std::move(m)); }
    bool in_ready(int x) { for (auto &b : ready) for (int y : b) if (y == x) return true; return false; }

    void seg_begin(int x) {
        if (active[x]) dsim::fail("C05.S5_reentrant", "coroutine %d resumed while it is already running", x);
        if (state[x] == DONE) dsim::fail("C05.S2_ran_after_done", "coroutine %d resumed after it finished", x);
        bool ok = false;
        auto take_from_ready = [&](int y) { for (size_t bi = ready.size(); bi-- > 0;) { auto &b = ready[bi]; auto it = std::find(b.begin(), b.end(), y); if (it != b.end()) { b.erase(it); if (b.empty()) ready.erase(ready.begin() + bi); return; } } };
        if (one_of.count(x)) { one_of.clear(); take_from_ready(x); ok = true; }          // the member of an awaited suspend point that is transferred to directly
        else if (direct.count(x)) { direct.erase(x); take_from_ready(x); ok = true; }
        else if (std::find(carried.begin(), carried.end(), x) != carried.end()) {
            if (!running.empty()) dsim::fail("C05.S1_started_before_suspension", "coroutine %d (carried by a suspend point discarded in ordinary code) started while coroutine %d is still running", x, running.back());
            carried.erase(std::find(carried.begin(), carried.end(), x)); ok = true;
        }
        if (!ok && !carried.empty() && running.empty() && !last_end_transfers)
            dsim::fail("C05.S3_fifo", "coroutine %d taken from the ready queue at the bottom of the chain although coroutine %d, made ready before it by the operation ordinary code performed, has not run yet", x, carried[0]);
        if (!ok && !one_of.empty()) dsim::fail("C05.awaited_suspend_point_not_transferred", "coroutine %d runs although the running coroutine had just co_awaited a suspend point carrying coroutine %d: control must switch to a carried coroutine first", x, *one_of.begin());
        if (!ok) {
            // inside a nested start() the ready queue may only be reached through a transfer chain (pause, awaited suspend point):
            // once a segment ended by suspending on something pending, control is back in the starter and nothing else may start
            // (an explicit coro_queue::install_queue_and_call() made by the running coroutine is different: its contract is to flush the
            // ready queue - in queue order - before it returns)
            bool drain_ok = !running.empty() && draining.back();
            bool nested_ok = !running.empty() && in_nested_call.back() && last_end_transfers;
            if (!drain_ok && !running.empty() && in_nested_call.back() && !last_end_transfers) dsim::fail("C05.S1_drained_inside_nested_start", "coroutine %d taken from the ready queue inside the start() call of coroutine %d after the started chain had suspended: coroutine %d had not suspended", x, running.back(), running.back());
            if (!drain_ok && !running.empty() && !nested_ok) dsim::fail("C05.S1_started_before_suspension", "coroutine %d started while coroutine %d is still running (made ready by a discarded operation)", x, running.back());
            if (ready.empty() || !in_ready(x)) dsim::fail("C05.S2_not_ready", "coroutine %d resumed but it is not in the ready queue (resumed twice, or never made ready)", x);
            auto &h = ready.front(); auto it = std::find(h.begin(), h.end(), x);
            if (it == h.end()) dsim::fail("C05.S3_fifo", "coroutine %d resumed before the coroutines made ready by an earlier operation (head batch starts with %d)", x, h[0]);
            h.erase(it); if (h.empty()) ready.pop_front();
        }
        for (size_t i = 0; i < pause_snap.size(); i++) { auto &s = pause_snap[i]; s.erase(std::remove(s.begin(), s.end(), x), s.end()); }
        for (size_t i = 0; i < pause_owner.size(); i++) if (pause_owner[i] == x) {
            if (!pause_snap[i].empty()) dsim::fail("C05.S4_pause", "coroutine %d continues after pause() although coroutine %d queued before the pause has not run", x, pause_snap[i][0]);
            pause_owner.erase(pause_owner.begin() + i); pause_snap.erase(pause_snap.begin() + i); break;
        }
        active[x] = true; state[x] = RUNNING; segs[x]++; running.push_back(x); in_nested_call.push_back(false); draining.push_back(false);
        dsim::event("seg_begin", x);
    }
    void seg_end(int x, bool transfers) {
        last_end_transfers = transfers;
        if (running.empty() || running.back() != x) dsim::fail("C05.harness", "segment end of %d but top of running stack differs", x);
        active[x] = false; running.pop_back(); in_nested_call.pop_back(); draining.pop_back();
        dsim::event("seg_end", x);
    }
    void all_ready(std::vector<int> &out) { for (auto &b : ready) for (int y : b) out.push_back(y); }
};
Model *MP;          // lives on the scenario's stack: nothing allocated in a run may survive in a static
#define M (*MP)
cocls::future<void> *futs[NF]; cocls::promise<void> proms[NF];
cocls::mutex *mx; cocls::queue<long> *q;

cocls::async<void> coro(int id);

// what a readying operation does, given whether its suspend point is discarded or awaited by running coroutine r
struct Readied { std::vector<int> m; };
void discard_effect(int r, Readied rd) { (void)r; M.batch(rd.m); }
// returns true if r suspends
bool await_effect(int r, Readied rd) {
    if (rd.m.empty()) return false;
    std::vector<int> b = rd.m; b.push_back(r);
    for (int x : rd.m) M.one_of.insert(x);
    M.batch(b);
    M.state[r] = Model::READY;
    return true;
}

cocls::async<void> coro(int id) {
    M.seg_begin(id);
    Script &s = M.sc[id];
    for (int k = 0; k < s.n; k++) {
        int op = s.st[k].op, a = s.st[k].arg;
        switch (op) {
        case PAUSE: {
            std::vector<int> snap; M.all_ready(snap);
            M.pause_snap.push_back(snap); M.pause_owner.push_back(id);
            M.batch({id});
            if (M.ready.size() == 1 && M.ready.front().size() == 1) M.direct.insert(id);   // nothing else queued: continues itself
            M.seg_end(id, true);          // pause() swaps with the head of the ready queue
            co_await cocls::pause();
            M.seg_begin(id);
            break; }
        case RESOLVE_DISCARD: case RESOLVE_AWAIT: case MERGE_DISCARD: {
            if (op == MERGE_DISCARD) {
                // resolve two promises, merge both suspend points and discard: ONE operation as far as batches go
                int b = (a + 1) % NF; Readied rd;
                cocls::suspend_point<void> sp;
                for (int f : {a, b}) if (!M.fut_resolved[f]) { M.fut_resolved[f] = true; for (int w : M.fut_waiters[f]) rd.m.push_back(w); M.fut_waiters[f].clear(); sp << proms[f](); }
                discard_effect(id, rd);
                break;          // sp destroyed here
            }
            if (M.fut_resolved[a]) break;
            M.fut_resolved[a] = true;
            Readied rd; rd.m = M.fut_waiters[a]; M.fut_waiters[a].clear();
            if (op == RESOLVE_DISCARD) { discard_effect(id, rd); proms[a](); }
            else {
                bool susp = await_effect(id, rd);
                if (susp) M.seg_end(id, true);   // awaited suspend point: one member is transferred to
                co_await proms[a]();
                if (susp) M.seg_begin(id);
            }
            break; }
        case CSP_DISCARD: case CSP_AWAIT: case CSP_HOLD: {
            // coro_queue::create_suspend_point(fn): what fn makes ready (here: by a discarded resolution inside fn) is taken back out of the
            // ready queue into a suspend point - nothing else in the queue may be touched - which is then discarded, awaited, or held
            // across a pause() and discarded afterwards
            if (M.fut_resolved[a]) break;
            M.fut_resolved[a] = true;
            Readied rd; rd.m = M.fut_waiters[a]; M.fut_waiters[a].clear();
            auto sp = cocls::coro_queue::create_suspend_point([&] { proms[a](); });
            if (op == CSP_AWAIT) {
                bool susp = await_effect(id, rd);
                if (susp) M.seg_end(id, true);
                co_await sp;
                if (susp) M.seg_begin(id);
                break;
            }
            if (op == CSP_HOLD) {      // the carried coroutines are not queued while the suspend point is held: pause() runs everybody else, not them
                std::vector<int> snap; M.all_ready(snap); M.pause_snap.push_back(snap); M.pause_owner.push_back(id);
                M.batch({id}); if (M.ready.size() == 1 && M.ready.front().size() == 1) M.direct.insert(id);
                M.seg_end(id, true); co_await cocls::pause(); M.seg_begin(id);
            }
            discard_effect(id, rd);
            sp.clear();
            break; }
        case INSTALL_CALL: {
            // the running coroutine calls coro_queue::install_queue_and_call(fn) itself (a queue is already installed): fn makes coroutines
            // ready by a discarded resolution; the call flushes the ready queue before it returns - and must leave this coroutine in
            // coroutine mode, so that what it makes ready afterwards still waits for it to suspend
            Readied rd; bool res = !M.fut_resolved[a];
            if (res) { M.fut_resolved[a] = true; rd.m = M.fut_waiters[a]; M.fut_waiters[a].clear(); }
            M.draining.back() = true;
            cocls::coro_queue::install_queue_and_call([&] { if (res) { discard_effect(id, rd); proms[a](); } });
            M.draining.back() = false;
            if (!M.ready.empty()) dsim::fail("C05.S6_not_drained", "install_queue_and_call() returned inside coroutine %d but coroutine %d is still queued", id, M.ready.front()[0]);
            if (!cocls::coro_queue::is_active()) dsim::fail("C05.coroutine_mode_lost", "after a nested install_queue_and_call() coroutine %d is still running but the thread is no longer in coroutine mode", id);
            break; }
        case AWAIT_FUT: {
            if (M.fut_resolved[a]) { co_await *futs[a]; break; }
            M.fut_waiters[a].push_back(id); M.state[id] = Model::SUSPENDED;
            M.seg_end(id, false);         // pending future: control returns to the bottom of the chain
            co_await *futs[a];
            M.seg_begin(id);
            break; }
        case DETACH_CHILD: {
            if (a <= id || a >= M.ncoro || M.spawned[a]) break;
            M.spawned[a] = true;
            discard_effect(id, Readied{{a}});
            coro(a).detach();
            break; }
        case AWAIT_CHILD: {
            if (a <= id || a >= M.ncoro || M.spawned[a]) break;
            M.spawned[a] = true; M.parent[a] = id; M.direct.insert(a); M.state[id] = Model::SUSPENDED;
            M.seg_end(id, true);          // co_await child: direct transfer
            co_await coro(a);
            M.seg_begin(id);
            break; }
        case START_CHILD: {       // start() inside a running coroutine resumes the child at once, nested; the future is awaited afterwards
            if (a <= id || a >= M.ncoro || M.spawned[a]) break;
            M.spawned[a] = true; M.direct.insert(a);
            M.in_nested_call.back() = true;
            cocls::future<void> f = coro(a).start();
            M.in_nested_call.back() = false;
            if (M.state[a] != Model::DONE) {
                M.parent[a] = id; M.state[id] = Model::SUSPENDED;
                M.seg_end(id, false);
                co_await f;
                M.seg_begin(id);
            } else co_await f;
            break; }
        case LOCK_REL_DISCARD: case LOCK_REL_AWAIT: {
            bool must_wait = M.mx_owner >= 0;
            if (must_wait) { M.mx_wait.push_back(id); M.state[id] = Model::SUSPENDED; M.seg_end(id, false); }
            auto own = co_await mx->lock();
            if (must_wait) M.seg_begin(id);
            if (M.mx_owner != (must_wait ? id : -1)) dsim::fail("C05.harness", "mutex model out of step");
            M.mx_owner = id;
            // hold the mutex across a pause so that others queue up behind it
            { std::vector<int> snap; M.all_ready(snap); M.pause_snap.push_back(snap); M.pause_owner.push_back(id); M.batch({id}); if (M.ready.size() == 1 && M.ready.front().size() == 1) M.direct.insert(id); M.seg_end(id, true); co_await cocls::pause(); M.seg_begin(id); }
            Readied rd;
            if (!M.mx_wait.empty()) { int w = M.mx_wait.front(); M.mx_wait.pop_front(); rd.m.push_back(w); M.mx_owner = w; } else M.mx_owner = -1;
            if (op == LOCK_REL_DISCARD) { discard_effect(id, rd); own.release(); }
            else { bool susp = await_effect(id, rd); if (susp) M.seg_end(id, true); co_await own.release(); if (susp) M.seg_begin(id); }
            break; }
        case Q_PUSH: {
            Readied rd;
            if (!M.q_wait.empty()) { rd.m.push_back(M.q_wait.front()); M.q_wait.pop_front(); } else M.q_items.push_back(id * 10 + k);
            discard_effect(id, rd);
            q->push((long)(id * 10 + k));
            break; }
        case Q_POP: {
            if (!M.q_items.empty()) { long want = M.q_items.front(); M.q_items.pop_front(); long got = co_await q->pop(); if (got != want) dsim::fail("C05.harness", "queue value"); break; }
            M.q_wait.push_back(id); M.state[id] = Model::SUSPENDED;
            M.seg_end(id, false);
            try { (void)co_await q->pop(); } catch (const cocls::await_canceled_exception &) {}
            M.seg_begin(id);
            break; }
        }
    }
    // finishing: a coroutine awaited by its parent transfers straight into it
    M.state[id] = Model::DONE;
    if (M.parent[id] >= 0) M.direct.insert(M.parent[id]);
    M.seg_end(id, M.parent[id] >= 0);     // a finished coroutine transfers into the coroutine awaiting it, else the chain ends
}


// a coroutine that is NOT run under an installed queue: the body of a generator stepped synchronously from ordinary code.
// It co_awaits the suspend point of a promise resolution (this is where suspend_point::await_suspend has to install the queue itself).
cocls::generator<long> bare_body(int gid, int fa) {
    M.seg_begin(gid);
    if (!M.fut_resolved[fa]) {
        M.fut_resolved[fa] = true;
        Readied rd; rd.m = M.fut_waiters[fa]; M.fut_waiters[fa].clear();
        bool susp = await_effect(gid, rd);
        if (susp) M.seg_end(gid, true);
        co_await proms[fa]();
        if (susp) M.seg_begin(gid);
    }
    M.state[gid] = Model::DONE;
    M.seg_end(gid, false);
}
void outer_returned(const char *what) {
    if (cocls::coro_queue::is_active()) dsim::fail("C05.S6_queue_active", "%s returned to ordinary code but the coroutine queue is still installed", what);
    if (!M.running.empty()) dsim::fail("C05.S6_not_drained", "%s returned while coroutine %d is marked running", what, M.running.back());
    if (!M.ready.empty()) dsim::fail("C05.S6_not_drained", "%s returned to ordinary code but coroutine %d made ready earlier was left un-run", what, M.ready.front()[0]);
    M.direct.clear(); M.one_of.clear();
}

void single_thread() {
    Model local_model; MP = &local_model;
    M.reset();
    M.ncoro = 1 + dsim::choose(MAXC - 1);      // id MAXC-1 is reserved for the generator-hosted coroutine
    int bare_fut = dsim::choose(NF + 2);        // < NF: a generator body stepped from ordinary code resolves that future and awaits the suspend point
    for (int i = 0; i < M.ncoro; i++) { M.sc[i].n = dsim::choose(MAXSTEP + 1); for (int k = 0; k < M.sc[i].n; k++) { M.sc[i].st[k].op = dsim::choose(NOPS); int op = M.sc[i].st[k].op; M.sc[i].st[k].arg = (op == DETACH_CHILD || op == AWAIT_CHILD || op == START_CHILD) ? i + 1 + (int)dsim::choose(3) : (int)dsim::choose(NF); } }
    dsim::plan_note("single-thread n=%d", M.ncoro);
    for (int i = 0; i < M.ncoro; i++) { dsim::plan_note(" C%d:", i); for (int k = 0; k < M.sc[i].n; k++) dsim::plan_note("%c%d", "prRfdasmMuoGcChI"[M.sc[i].st[k].op], M.sc[i].st[k].arg); }
    cocls::future<void> fstore[NF]; cocls::mutex mxs; auto qs = std::make_unique<cocls::queue<long>>();
    for (int f = 0; f < NF; f++) { futs[f] = &fstore[f]; proms[f] = fstore[f].get_promise(); }
    mx = &mxs; q = qs.get();
    // entered from ordinary code: every not yet spawned coroutine is started by a discarded detach (runs at once), then the
    // remaining futures are resolved from ordinary code (each resolution is a new outermost activation)
    for (int i = 0; i < M.ncoro; i++) if (!M.spawned[i]) {
        M.spawned[i] = true; M.direct.insert(i);
        coro(i).detach();
        outer_returned("detach() from ordinary code");
    }
    if (bare_fut < NF && !M.fut_resolved[bare_fut]) {
        int gid = MAXC - 1;
        M.direct.insert(gid);
        { auto g = bare_body(gid, bare_fut); bool more = g.next(); if (more) dsim::fail("C05.harness", "generator yielded"); }
        outer_returned("generator step from ordinary code");
    }
    for (int f = 0; f < NF; f++) if (!M.fut_resolved[f]) {
        // a suspend point discarded in ordinary code installs ONE queue and resumes the coroutines it carries one after the other, each
        // by a nested resume; what they make ready is queued and runs through a transfer chain (pause, awaited suspend point) or when
        // all carried coroutines have had their turn - never at the bottom of the chain while a carried coroutine is still waiting
        M.fut_resolved[f] = true; M.carried = M.fut_waiters[f]; for (int w : M.carried) M.state[w] = Model::READY; M.fut_waiters[f].clear();
        proms[f]();
        if (!M.carried.empty()) dsim::fail("C05.S6_not_drained", "promise resolution returned to ordinary code but waiter %d was not resumed", M.carried[0]);
        outer_returned("promise resolution from ordinary code");
    }
    // parked queue pops: feed them; parked mutex waiters cannot exist (every owner releases)
    while (!M.q_wait.empty()) { M.direct.insert(M.q_wait.front()); M.q_wait.pop_front(); q->push(-1); outer_returned("queue push from ordinary code"); }
    for (int i = 0; i < M.ncoro; i++) if (M.state[i] != Model::DONE) dsim::fail("C05.S6_not_drained", "coroutine %d never finished (state %d) although nothing it waits for is pending", i, (int)M.state[i]);
    qs.reset();
    MP = nullptr;
}

// ------------------------------------------------------------------ wakers on other threads: exactly-once and no re-entrancy
enum { ACTIVE = 100, SEGS = 200, FIN = 300 };
cocls::async<void> mt_coro(int id, int steps, const int *what, cocls::future<void> **f) {
    for (int k = 0; k < steps; k++) {
        if (dsim::cell_add(ACTIVE + id, 1) != 1) dsim::fail("C05.S5_reentrant", "coroutine %d resumed while it is already running", id);
        dsim::cell_add(SEGS + id, 1);
        dsim::yield();
        dsim::cell_add(ACTIVE + id, -1);
        if (what[k] < NF) co_await *f[what[k]]; else co_await cocls::pause();
    }
    dsim::cell_add(FIN + id, 1);
}
void multi_thread() {
    int n = 1 + dsim::choose(5), nthr = 1 + dsim::choose(3);
    int steps[MAXC], what[MAXC][MAXSTEP];
    for (int i = 0; i < n; i++) { steps[i] = 1 + dsim::choose(MAXSTEP); for (int k = 0; k < steps[i]; k++) what[i][k] = dsim::choose(NF + 1); }
    dsim::plan_note("threads n=%d resolvers=%d", n, nthr);
    cocls::future<void> fstore[NF]; cocls::future<void> *fp[NF]; cocls::promise<void> pr[NF];
    for (int f = 0; f < NF; f++) { fp[f] = &fstore[f]; pr[f] = fstore[f].get_promise(); }
    std::vector<std::thread> th;
    for (int t = 0; t < nthr; t++) th.emplace_back([&, t] { for (int f = t; f < NF; f += nthr) { pr[f](); if (cocls::coro_queue::is_active()) dsim::fail("C05.S6_queue_active", "coroutine queue still installed on the resolver thread after the resolution returned"); } });
    std::vector<cocls::future<void>> done(n);
    for (int i = 0; i < n; i++) { done[i] << [&] { return mt_coro(i, steps[i], what[i], fp).start(); }; if (cocls::coro_queue::is_active()) dsim::fail("C05.S6_queue_active", "coroutine queue still installed after start() returned to ordinary code"); }
    for (auto &t : th) t.join();
    for (int i = 0; i < n; i++) { done[i].wait(); if (dsim::cell_get(FIN + i) != 1 || dsim::cell_get(SEGS + i) != steps[i]) dsim::fail("C05.S2_segments", "coroutine %d ran %ld segments (finished %ld times), its script has %d", i, dsim::cell_get(SEGS + i), dsim::cell_get(FIN + i), steps[i]); }
}
}

void dsim_scenario() {
    if (dsim::choose(4) == 3) multi_thread(); else single_thread();
}
