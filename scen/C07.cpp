// C07 — coroutine mutex: mutual exclusion and exactly-once grant (DESIGN §7 C07)
#include "dsim.h"
#include <cocls/mutex.h>
#include <cocls/async.h>
#include <cocls/future.h>
#include <thread>
#include <vector>

const char *const dsim_property = "C07";
namespace {
enum { HOLDER = 0, GRANTS = 100, ACTIVE = 200, RESUMES = 300, SUSP = 400 };

struct Ctx { cocls::mutex mx; };

void enter_cs(int me) {
    long h = dsim::cell_xchg(HOLDER, me + 1);
    if (h != 0) dsim::fail("C07.overlap", "contender %d entered the critical section while contender %ld holds the mutex", me, h - 1);
    dsim::event("cs_enter", me);
}
void leave_cs(int me) {
    long h = dsim::cell_xchg(HOLDER, 0);
    if (h != me + 1) dsim::fail("C07.overlap", "contender %d leaves the critical section but holder cell says %ld", me, h - 1);
    dsim::event("cs_leave", me);
}

cocls::async<void> coro_contender(Ctx &c, int me, int rounds, int relstyle) {
    for (int r = 0; r < rounds; r++) {
        if (dsim::cell_add(ACTIVE + me, 1) != 1) dsim::fail("C07.reentrant", "coroutine %d resumed while already running", me);
        auto awt = c.mx.lock();
        dsim::cell_add(ACTIVE + me, -1);
        auto own = co_await awt;
        if (dsim::cell_add(ACTIVE + me, 1) != 1) dsim::fail("C07.reentrant", "coroutine %d resumed while already running (after lock)", me);
        dsim::cell_add(GRANTS + me, 1);
        enter_cs(me);
        dsim::yield();
        leave_cs(me);
        dsim::cell_add(ACTIVE + me, -1);
        if (relstyle == 0) own.release();
        else if (relstyle == 1) co_await own.release();
        else if (relstyle == 3) { std::thread t([o = std::move(own)]() mutable { o.release(); }); t.join(); }   // released by another thread
        else { /* destructor */ }
    }
}

// event-driven contender: a callback awaiter registered with lock().subscribe(); its handler runs inline in whoever hands the mutex
// over - inside that party's release - takes the ownership, does its critical section, releases from inside the handler (a release
// nested in a release) and registers its next request from there
struct CbContender : cocls::awaiter {
    Ctx &c; int me, rounds, got = 0; cocls::promise<void> fin;
    CbContender(Ctx &c, int me, int rounds) : c(c), me(me), rounds(rounds) { set_resume_fn([](cocls::awaiter *a, void *) noexcept -> cocls::suspend_point<void> { return static_cast<CbContender *>(a)->granted(); }); }
    cocls::suspend_point<void> granted() {
        for (;;) {
            {
                cocls::mutex::ownership own = c.mx.lock().await_resume();
                dsim::cell_add(GRANTS + me, 1);
                enter_cs(me); dsim::yield(); leave_cs(me);
            }       // released by destruction, here inside the handler
            if (++got == rounds) return fin();
            auto aw = c.mx.lock();
            if (!aw.await_ready() && aw.subscribe(this)) return {};          // parked again: the next release calls granted()
        }
    }
    void start() { auto aw = c.mx.lock(); if (!aw.await_ready() && aw.subscribe(this)) return; granted().clear(); }
};

void blocking_contender(Ctx &c, int me, int rounds, int style) {
    for (int r = 0; r < rounds; r++) {
        if (style == 0) {
            cocls::mutex::ownership own(c.mx.lock());
            dsim::cell_add(GRANTS + me, 1);
            enter_cs(me); dsim::yield(); leave_cs(me);
        } else {
            for (;;) {
                auto own = c.mx.try_lock();
                if (own) { dsim::cell_add(GRANTS + me, 1); enter_cs(me); dsim::yield(); leave_cs(me); break; }
                std::this_thread::yield();
            }
        }
    }
}
}

void dsim_scenario() {
    int n = 2 + dsim::choose(3);
    Ctx c;
    std::vector<std::thread> th;
    int rounds[4], kind[4], rel[4];
    for (int i = 0; i < n; i++) { kind[i] = dsim::choose(5); rounds[i] = 1 + dsim::choose(3); rel[i] = dsim::choose(4); }
    dsim::plan_note("n=%d", n);
    for (int i = 0; i < n; i++) dsim::plan_note(" [%d:k%d r%d rel%d]", i, kind[i], rounds[i], rel[i]);
    for (int i = 0; i < n; i++) {
        th.emplace_back([&, i] {
            if (kind[i] == 0) coro_contender(c, i, rounds[i], rel[i]).join();
            else if (kind[i] == 3) {
                // two coroutines of one thread contend with each other and with the rest (ids i and i+4)
                auto f1 = coro_contender(c, i, rounds[i], rel[i]).start();
                auto f2 = coro_contender(c, i + 4, rounds[i], (rel[i] + 1) % 4).start();
                f1.wait(); f2.wait();
            }
            else if (kind[i] == 4) { CbContender cb(c, i, rounds[i]); cocls::future<void> f; cb.fin = f.get_promise(); cb.start(); f.wait(); }
            else blocking_contender(c, i, rounds[i], kind[i] - 1);
        });
    }
    for (auto &t : th) t.join();
    for (int i = 0; i < n; i++) if (kind[i] == 3 && dsim::cell_get(GRANTS + i + 4) != rounds[i]) dsim::fail("C07.grants", "second coroutine of thread %d was granted %ld times for %d requests", i, dsim::cell_get(GRANTS + i + 4), rounds[i]);
    for (int i = 0; i < n; i++) if (dsim::cell_get(GRANTS + i) != rounds[i]) dsim::fail("C07.grants", "contender %d was granted %ld times for %d requests", i, dsim::cell_get(GRANTS + i), rounds[i]);
    auto o = c.mx.try_lock();
    if (!o) dsim::fail("C07.locked_at_end", "mutex still locked after every owner released");
}
