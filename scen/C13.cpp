// C13 — generator: the consumer sees exactly the yielded sequence, in every access style (DESIGN §7 C13)
#include "common.h"
#include <cocls/generator.h>
#include <cocls/async.h>
#include <cocls/future.h>
#include <string>
#include <thread>
#include <vector>

const char *const dsim_property = "C13";
namespace {
enum { NREADY = 0, STOP = 1, GUARD_CTOR = 2, GUARD_DTOR = 3, NARGS = 4, PEND_READY = 100, PEND_DONE = 200, ARGS = 300 };
enum Step { Y = 0, AWAIT_READY, AWAIT_OTHER, AWAIT_SELF, THROW, RET };
struct Script { int n; int kind[12]; long val[12]; };
Script *S;
cocls::promise<void> pend[12];

struct Guard { Guard() { dsim::cell_add(GUARD_CTOR, 1); } ~Guard() { dsim::cell_add(GUARD_DTOR, 1); } Guard(const Guard &) = delete; };
cocls::future<void> pending(int k) { return [k](cocls::promise<void> p) { pend[k] = std::move(p); vs::cell_set_hb(PEND_READY + k, 1); }; }
void complete(int k) { if (!dsim::cell_xchg(PEND_DONE + k, 1)) { (void)vs::cell_get_hb(PEND_READY + k); pend[k](); } }
void complete_self_pending() { for (int k = 0; k < S->n; k++) if (S->kind[k] == AWAIT_SELF && dsim::cell_get(PEND_READY + k) && !dsim::cell_get(PEND_DONE + k)) complete(k); }

cocls::generator<long> body() {
    Guard g; vs::Counted local(5);
    for (int k = 0; k < S->n; k++) {
        switch (S->kind[k]) {
        case Y: co_yield S->val[k]; break;
        case AWAIT_READY: co_await cocls::future<void>::set_value(); break;
        case AWAIT_OTHER: case AWAIT_SELF: co_await pending(k); break;
        case THROW: throw vs::TestError(S->val[k]);
        default: co_return;
        }
        if (local.value() != 5) dsim::fail("C13.frame", "generator local damaged");
    }
}
// generator with argument: records what every co_yield returned
cocls::generator<long, long> body_arg() {
    Guard g;
    long a = co_yield nullptr;                    // argument of the very first call
    { long n = dsim::cell_add(NARGS, 1) - 1; dsim::cell_set(ARGS + (int)n, a); }
    for (int k = 0; k < S->n; k++) {
        switch (S->kind[k]) {
        case Y: { long &r = co_yield S->val[k]; long n = dsim::cell_add(NARGS, 1) - 1; dsim::cell_set(ARGS + (int)n, r); break; }
        case AWAIT_READY: co_await cocls::future<void>::set_value(); break;
        case AWAIT_OTHER: case AWAIT_SELF: co_await pending(k); break;
        case THROW: throw vs::TestError(S->val[k]);
        default: co_return;
        }
    }
}

struct Expect { std::vector<long> vals; bool throws = false; long code = 0; };
Expect expectation() {
    Expect e;
    for (int k = 0; k < S->n; k++) { if (S->kind[k] == Y) e.vals.push_back(S->val[k]); else if (S->kind[k] == THROW) { e.throws = true; e.code = S->val[k]; break; } else if (S->kind[k] == RET) break; }
    return e;
}
struct Observed { std::vector<long> vals; bool ended = false, threw = false; long code = 0; };
void compare(const Observed &o, const Expect &e, size_t limit) {
    for (size_t i = 0; i < o.vals.size(); i++) {
        if (i >= e.vals.size()) dsim::fail("C13.extra_value", "consumer received value #%zu = %ld, the body yields only %zu values", i, o.vals[i], e.vals.size());
        if (o.vals[i] != e.vals[i]) dsim::fail("C13.wrong_value", "consumer received %ld as value #%zu, the body yielded %ld", o.vals[i], i, e.vals[i]);
    }
    if (limit < e.vals.size()) { if (o.vals.size() != limit) dsim::fail("C13.skipped", "consumer took %zu values, asked for %zu", o.vals.size(), limit); return; }   // destroyed early
    if (o.vals.size() != e.vals.size()) dsim::fail("C13.skipped", "consumer received %zu values, the body yields %zu before it ends", o.vals.size(), e.vals.size());
    if (e.throws) { if (!o.threw || o.code != e.code) dsim::fail("C13.exception", "body throws %ld after %zu values; consumer saw threw=%d code=%ld ended=%d", e.code, e.vals.size(), (int)o.threw, o.code, (int)o.ended); }
    else if (!o.ended || o.threw) dsim::fail("C13.end", "body ends after %zu values; consumer saw ended=%d threw=%d", e.vals.size(), (int)o.ended, (int)o.threw);
}

bool g_stored_next = false;     // drawn per run in dsim_scenario
// ---- consumers in normal code: styles 0 next()+value(), 1 gen().wait(), 2 gen() has_value, 3 fut << gen ; whole-run style: iterator / range-for
template <typename G> void consume_normal(G &gen, const int *style, size_t limit, Observed &o, bool with_arg) {
    long argc = 1000;
    for (size_t i = 0; o.vals.size() < limit && !o.ended && !o.threw; i++) {
        long arg = argc++;
        try {
            switch (style[i % 12]) {
            case 0: {
                bool ok;
                if (g_stored_next) {     // the result of next() kept in a variable and tested more than once: only the first test steps the generator
                    auto n = [&] { if constexpr (G::arg_is_void) return gen.next(); else return gen.next(arg); }();
                    ok = n; bool again = n; bool neg = !n;
                    if (again != ok || neg == ok) dsim::fail("C13.stored_next", "a stored next() answered %d, then %d, then operator! %d", (int)ok, (int)again, (int)neg);
                } else { if constexpr (G::arg_is_void) ok = gen.next(); else ok = gen.next(arg); }
                if (!ok) { o.ended = true; break; }
                o.vals.push_back(gen.value()); break; }
            case 1: {
                auto f = [&] { if constexpr (G::arg_is_void) return gen(); else return gen(arg); }();
                complete_self_pending();
                try { o.vals.push_back(f.wait()); } catch (const cocls::await_canceled_exception &) { o.ended = true; }
                break; }
            case 2: {
                auto f = [&] { if constexpr (G::arg_is_void) return gen(); else return gen(arg); }();
                complete_self_pending();
                if (!f.has_value()) { o.ended = true; break; }
                o.vals.push_back(f.value()); break; }
            default: {
                cocls::future<long> f;
                f << [&] { if constexpr (G::arg_is_void) return gen(); else return gen(arg); };
                complete_self_pending();
                f.sync();
                if (!f.has_value()) { o.ended = true; break; }
                o.vals.push_back(f.value()); break; }
            }
        } catch (const vs::TestError &e) { o.threw = true; o.code = e.code; }
        (void)with_arg;
    }
    if (o.ended && !o.threw) {      // the end is final: asking a finished generator again must not announce a value
        if (!gen.done()) dsim::fail("C13.end", "end of sequence was indicated but done() is false");
        bool again; if constexpr (G::arg_is_void) again = gen.next(); else again = gen.next(argc);
        if (again) dsim::fail("C13.extra_value", "next() on a finished generator announces another value");
    }
}
// ---- consumer coroutine: styles 0 co_await next(), 1 co_await gen(), 2 co_await gen().has_value()
template <typename G> cocls::async<void> consume_coro(G &gen, const int *style, size_t limit, Observed &o) {
    long argc = 1000;
    for (size_t i = 0; o.vals.size() < limit && !o.ended && !o.threw; i++) {
        long arg = argc++;
        try {
            switch (style[i % 12] % 3) {
            case 0: {
                bool ok; if constexpr (G::arg_is_void) ok = co_await gen.next(); else ok = co_await gen.next(arg);
                if (!ok) { o.ended = true; break; }
                o.vals.push_back(gen.value()); break; }
            case 1: {
                auto f = [&] { if constexpr (G::arg_is_void) return gen(); else return gen(arg); }();
                complete_self_pending();
                try { o.vals.push_back(co_await f); } catch (const cocls::await_canceled_exception &) { o.ended = true; }
                break; }
            default: {
                auto f = [&] { if constexpr (G::arg_is_void) return gen(); else return gen(arg); }();
                complete_self_pending();
                bool hv = co_await f.has_value();
                if (!hv) { o.ended = true; break; }
                o.vals.push_back(f.value()); break; }
            }
        } catch (const vs::TestError &e) { o.threw = true; o.code = e.code; }
    }
    if (o.ended && !o.threw) {      // the end is final (awaited form)
        bool again; if constexpr (G::arg_is_void) again = co_await gen.next(); else again = co_await gen.next(argc);
        if (again) dsim::fail("C13.extra_value", "co_await next() on a finished generator announces another value");
    }
}

// ---- event-driven consumer: a callback awaiter on the future returned by gen(); its handler runs inline in whoever lets the generator
// reach its next yield (this thread, or the helper thread completing an awaited operation) and calls the generator again from there
template <typename G> struct CbGenConsumer : cocls::awaiter {
    G &gen; size_t limit; Observed &o; cocls::future<long> f; cocls::promise<void> done;
    CbGenConsumer(G &g, size_t limit, Observed &o) : gen(g), limit(limit), o(o) { set_resume_fn([](cocls::awaiter *me, void *) noexcept -> cocls::suspend_point<void> { auto *c = static_cast<CbGenConsumer *>(me); c->record(); return c->pump(); }); }
    void record() { try { if (!f.has_value()) o.ended = true; else o.vals.push_back(f.value()); } catch (const vs::TestError &e) { o.threw = true; o.code = e.code; } }
    cocls::suspend_point<void> pump() {
        while (o.vals.size() < limit && !o.ended && !o.threw) {
            f << [&] { return gen(); };
            complete_self_pending();
            cocls::co_awaiter<cocls::future<long>> aw(f);
            if (aw.subscribe(this)) return {};          // parked: the generator's next yield (or end) calls the handler
            record();
        }
        return done();
    }
};

// ---- a value type whose move empties the source, yielded as an lvalue the body keeps using; access styles mixed per item
cocls::generator<std::string> accumulating(int n) { std::string acc; for (int i = 0; i < n; i++) { acc += (char)('a' + i); co_yield acc; } }
void string_mode() {
    int n = 1 + dsim::choose(6); int style[8]; for (int &x : style) x = dsim::choose(5);
    dsim::plan_note("string generator n=%d styles=", n); for (int i = 0; i < n; i++) dsim::plan_note("%d", style[i]);
    auto gen = accumulating(n);
    std::string expect;
    for (int i = 0; i < n; i++) {
        expect += (char)('a' + i);
        std::string got;
        switch (style[i]) {
        case 0: if (!gen.next()) dsim::fail("C13.end", "string generator ended after %d of %d values", i, n); got = gen.value(); break;
        case 1: { auto f = gen(); got = f.wait(); break; }
        case 2: { auto f = gen(); if (!f.has_value()) dsim::fail("C13.end", "string generator ended early"); got = f.value(); break; }
        case 3: { auto f = gen(); f.sync(); got = f.value(); if (gen.value() != expect) dsim::fail("C13.wrong_value", "item #%d read through value() after a future access is \"%s\", the body yielded \"%s\"", i, gen.value().c_str(), expect.c_str()); break; }
        default: { cocls::future<std::string> f; f << [&] { return gen(); }; got = f.wait(); break; }
        }
        if (got != expect) dsim::fail("C13.wrong_value", "item #%d observed as \"%s\" (access style %d), the body yielded \"%s\"", i, got.c_str(), style[i], expect.c_str());
    }
    if (gen.next()) dsim::fail("C13.extra_value", "string generator yielded more than %d values", n);
}
}

void dsim_scenario() {
    if (dsim::choose(7) == 6) { string_mode(); return; }
    Script sc; S = &sc;
    sc.n = 1 + dsim::choose(8);
    int mode = dsim::choose(5);               // 0 normal code, mixed styles; 1 range-for; 2 coroutine consumer; 3 generator with argument (normal code); 4 event-driven (callback awaiter)
    bool coroutine_consumer = mode == 2;
    int style[12]; for (int i = 0; i < 12; i++) style[i] = dsim::choose(4);
    g_stored_next = dsim::flip();
    bool all_nonblocking = true; for (int i = 0; i < 12; i++) if (style[i] == 0) all_nonblocking = false;
    if (mode == 4) all_nonblocking = true;
    long v = 1;
    for (int k = 0; k < sc.n; k++) {
        int kd = dsim::choose(8);
        sc.kind[k] = kd <= 2 ? Y : kd == 3 ? AWAIT_READY : kd == 4 ? AWAIT_OTHER : kd == 5 ? AWAIT_SELF : kd == 6 ? THROW : RET;
        // API contract: an await that only the consumer can complete requires a consumer that is not blocked inside the call
        if (sc.kind[k] == AWAIT_SELF && (mode == 1 || mode == 3 || !(all_nonblocking || coroutine_consumer))) sc.kind[k] = AWAIT_OTHER;
        if (sc.kind[k] == AWAIT_SELF && coroutine_consumer) { bool ok = true; for (int i = 0; i < 12; i++) if (style[i] % 3 == 0) ok = false; if (!ok) sc.kind[k] = AWAIT_OTHER; }
        // ... and it must be reachable from the call without another thread's help: no 'await other' since the last yield
        if (sc.kind[k] == AWAIT_SELF) { for (int j = k - 1; j >= 0 && sc.kind[j] != Y; j--) if (sc.kind[j] == AWAIT_OTHER) sc.kind[k] = AWAIT_OTHER; }
        // a coroutine consumer completes the awaited operation while it is itself running, so the generator only continues (from the ready
        // queue) once the consumer has suspended in co_await: a second consumer-completed await before the next yield could never be completed
        // (the same holds for the event-driven consumer: its handler may run under a queue installed by whoever resumed the generator)
        if (sc.kind[k] == AWAIT_SELF && (coroutine_consumer || mode == 4)) { for (int j = k - 1; j >= 0 && sc.kind[j] != Y; j--) if (sc.kind[j] == AWAIT_SELF) sc.kind[k] = AWAIT_OTHER; }
        sc.val[k] = sc.kind[k] == THROW ? 900 + k : v++;
    }
    Expect e = expectation();
    size_t limit = (dsim::choose(4) == 3 && !e.vals.empty()) ? dsim::choose((unsigned)e.vals.size()) : 1000;    // early destruction while parked at a yield (strictly fewer values than the body yields)
    dsim::plan_note("mode=%d script:", mode);
    for (int k = 0; k < sc.n; k++) dsim::plan_note(" %s", sc.kind[k] == Y ? "Y" : sc.kind[k] == AWAIT_READY ? "ar" : sc.kind[k] == AWAIT_OTHER ? "ao" : sc.kind[k] == AWAIT_SELF ? "as" : sc.kind[k] == THROW ? "THROW" : "RET");
    dsim::plan_note(" styles="); for (int i = 0; i < 6; i++) dsim::plan_note("%d", style[i]); dsim::plan_note(" stored_next=%d", (int)g_stored_next); dsim::plan_note(" limit=%zu", limit);
    std::thread helper([&] {        // completes the awaits that "another thread" completes
        for (;;) {
            bool stop = dsim::cell_get(STOP);
            for (int k = 0; k < sc.n; k++) if (sc.kind[k] == AWAIT_OTHER && dsim::cell_get(PEND_READY + k) && !dsim::cell_get(PEND_DONE + k)) complete(k);
            if (stop) break;
            std::this_thread::yield();
        }
    });
    Observed o;
    {
        if (mode == 3) {
            auto gen = body_arg();
            consume_normal(gen, style, limit, o, true);
            // argument k+1 is received by the co_yield that produced value k; the first by co_yield nullptr
            long n = dsim::cell_get(NARGS);
            for (long i = 0; i < n; i++) if (dsim::cell_get(ARGS + (int)i) != 1000 + i) dsim::fail("C13.argument", "co_yield #%ld returned %ld, the call that resumed it passed %ld", i, dsim::cell_get(ARGS + (int)i), 1000 + i);
            size_t calls = o.vals.size() + ((o.ended || o.threw) ? 1 : 0);
            if ((size_t)n > calls || (calls && n == 0)) dsim::fail("C13.argument", "%zu calls were made but the body received %ld arguments", calls, n);
        } else if (mode == 1) {
            auto gen = body();
            if (limit == 0) limit = 1;      // range-for always takes the first step
            if (limit >= e.vals.size()) limit = 1000;
            try { bool broke = false; for (long x : gen) { o.vals.push_back(x); if (o.vals.size() >= limit) { broke = true; break; } } if (!broke) o.ended = true; }
            catch (const vs::TestError &ex) { o.threw = true; o.code = ex.code; }
        } else if (mode == 4) {
            auto gen = body();
            CbGenConsumer<decltype(gen)> c(gen, limit, o); cocls::future<void> fin; c.done = fin.get_promise();
            c.pump().clear();
            fin.wait();
        } else if (mode == 2) {
            auto gen = body();
            consume_coro(gen, style, limit, o).join();
        } else {
            auto gen = body();
            consume_normal(gen, style, limit, o, false);
        }
        // generator destroyed here (possibly parked at a yield)
    }
    dsim::cell_set(STOP, 1);
    helper.join();
    compare(o, e, limit);
    long started = (limit == 0 && mode != 1) ? 0 : 1;     // a generator that was never called never enters its body
    if (dsim::cell_get(GUARD_CTOR) != started || dsim::cell_get(GUARD_DTOR) != started) dsim::fail("C13.locals", "generator locals: constructed %ld, destroyed %ld times", dsim::cell_get(GUARD_CTOR), dsim::cell_get(GUARD_DTOR));
    vs::Counted::expect_balanced("C13.locals");
    for (auto &p : pend) p = cocls::promise<void>();
    S = nullptr;
}
