// C01 — a future is resolved exactly once, by exactly one winner (DESIGN §7 C01)
#include "common.h"
#include <cocls/future.h>
#include <cocls/async.h>
#include <memory>
#include <thread>
#include <vector>

const char *const dsim_property = "C01";
namespace {
enum { SUCCESSES = 0, WIN_KIND = 1, WIN_VAL = 2, ATTEMPTS = 3, WAIT_KIND = 10, WAIT_VAL = 20, WAIT_DONE = 30 };
enum Kind { K_NONE = 0, K_VALUE = 1, K_EXC = 2, K_NOVALUE = 3 };
long ref_slots[8];

template <typename T> struct Tr;
template <> struct Tr<long> {
    static constexpr const char *name = "long";
    template <typename P> static auto resolve(P &p, long v) { return p(v); }
    static long read(long &x) { return x; }
};
template <> struct Tr<std::unique_ptr<long>> {
    static constexpr const char *name = "unique_ptr";
    template <typename P> static auto resolve(P &p, long v) { return p(std::make_unique<long>(v)); }
    static long read(std::unique_ptr<long> &x) { return x ? *x : -1; }
};
template <> struct Tr<long &> {
    static constexpr const char *name = "ref";
    template <typename P> static auto resolve(P &p, long v) { ref_slots[v & 7] = v; return p(ref_slots[v & 7]); }
    static long read(long &x) { if (&x < ref_slots || &x >= ref_slots + 8) dsim::fail("C01.payload", "future<T&> does not refer to the object the winner supplied"); return x; }
};
template <> struct Tr<vs::Counted> {
    static constexpr const char *name = "counted";
    template <typename P> static auto resolve(P &p, long v) { return p(v); }   // constructed in place from the argument: only a winner constructs
    static long read(vs::Counted &x) { return x.value(); }
};

extern const long g_default_value; const long g_default_value = 7808;
void won(int kind, long val) {
    long n = dsim::cell_add(SUCCESSES, 1);
    if (n != 1) dsim::fail("C01.two_winners", "a second resolution reported success (kind %d value %ld; first winner kind %ld value %ld)", kind, val, dsim::cell_get(WIN_KIND), dsim::cell_get(WIN_VAL));
    dsim::cell_set(WIN_KIND, kind); dsim::cell_set(WIN_VAL, val);
    dsim::event("won", kind, val);
}

template <typename T> void observe(cocls::future<T> &f, int slot, bool through_const = false) {
    // reads the state of a resolved future the way user code does
    int kind; long val = 0;
    try {
        if (through_const) {      // the const overloads (a reader that only holds a const reference to the future)
            const cocls::future<T> &cf = f;
            if constexpr (std::is_void_v<T>) { cf.value(); kind = K_VALUE; }
            else { using R = std::remove_cvref_t<decltype(cf.value())>; val = Tr<T>::read(const_cast<R &>(cf.value())); kind = K_VALUE; }
        }
        else if constexpr (std::is_void_v<T>) { f.value(); kind = K_VALUE; }
        else { val = Tr<T>::read(f.value()); kind = K_VALUE; }
    } catch (const vs::TestError &e) { kind = K_EXC; val = e.code; }
    catch (const cocls::await_canceled_exception &) { kind = K_NOVALUE; }
    catch (const cocls::value_not_ready_exception &) { dsim::fail("C01.not_ready", "value() of a resolved future reports value_not_ready"); }
    dsim::cell_set(WAIT_KIND + slot, kind); dsim::cell_set(WAIT_VAL + slot, val); dsim::cell_set(WAIT_DONE + slot, 1);
}

template <typename T> cocls::async<void> coro_waiter(cocls::future<T> &f, int slot, int style) {
    if (style == 0) {
        int kind; long val = 0;
        try {
            if constexpr (std::is_void_v<T>) { co_await f; kind = K_VALUE; }
            else { auto &r = co_await f; val = Tr<T>::read(r); kind = K_VALUE; }
        } catch (const vs::TestError &e) { kind = K_EXC; val = e.code; }
        catch (const cocls::await_canceled_exception &) { kind = K_NOVALUE; }
        dsim::cell_set(WAIT_KIND + slot, kind); dsim::cell_set(WAIT_VAL + slot, val); dsim::cell_set(WAIT_DONE + slot, 1);
    } else {
        bool hv = co_await f.has_value();
        observe(f, slot);
        if (hv != (dsim::cell_get(WAIT_KIND + slot) != K_NOVALUE)) dsim::fail("C01.has_value", "co_await has_value() returned %d but value() observed kind %ld", (int)hv, dsim::cell_get(WAIT_KIND + slot));
    }
}

template <typename T> cocls::async<T> producer_coro(long v) {
    if constexpr (std::is_void_v<T>) { (void)v; co_return; }
    else if constexpr (std::is_same_v<T, long &>) { ref_slots[v & 7] = v; co_return ref_slots[v & 7]; }
    else if constexpr (std::is_same_v<T, std::unique_ptr<long>>) co_return std::make_unique<long>(v);
    else co_return T(v);
}

template <typename T> void resolver(cocls::promise<T> &p, int me, int action) {
    long v = 1000 + me;
    switch (action) {
    case 0: return;
    case 1: {
        dsim::cell_add(ATTEMPTS, 1);
        bool ok;
        if constexpr (std::is_void_v<T>) ok = p(); else ok = Tr<T>::resolve(p, v);
        if (ok) won(K_VALUE, std::is_void_v<T> ? 0 : v);
        break; }
    case 2: { dsim::cell_add(ATTEMPTS, 1); bool ok = p(vs::make_err(v)); if (ok) won(K_EXC, v); break; }
    case 3: { dsim::cell_add(ATTEMPTS, 1); bool ok = p(cocls::drop); if (ok) won(K_NOVALUE, 0); break; }
    case 4: { dsim::cell_add(ATTEMPTS, 1); bool ok = p.set_exception(vs::make_err(v)); if (ok) won(K_EXC, v); break; }
    case 5: { dsim::cell_add(ATTEMPTS, 1); cocls::promise<T> q(std::move(p)); if (q) won(K_NOVALUE, 0); break; }   // destroyed unresolved
    case 6: {
        dsim::cell_add(ATTEMPTS, 1);
        cocls::promise<T> q(std::move(p));
        if (q) {
            won(K_VALUE, std::is_void_v<T> ? 0 : v);
            bool ok;
            if constexpr (std::is_void_v<T>) ok = q(); else ok = Tr<T>::resolve(q, v);
            if (!ok) dsim::fail("C01.claimed_promise_refused", "a promise obtained by a winning move refused its value");
        }
        break; }
    case 7: {
        dsim::cell_add(ATTEMPTS, 1);
        auto co = producer_coro<T>(v);
        bool ok = co.start(p);
        if (ok) won(K_VALUE, std::is_void_v<T> ? 0 : v);
        break; }
    case 8: {   // bind(): moving the promise into the closure is the claim, calling the closure resolves
        if constexpr (std::is_reference_v<T>) { resolver<T>(p, me, 1); return; }      // (binding decays its arguments: a bound reference would refer to the closure's copy)
        else {
            dsim::cell_add(ATTEMPTS, 1);
            auto fn = [&] { if constexpr (std::is_void_v<T>) return p.bind(); else if constexpr (std::is_same_v<T, std::unique_ptr<long>>) return p.bind(std::make_unique<long>(v)); else return p.bind(v); }();
            bool ok = fn();
            if (ok) won(K_VALUE, std::is_void_v<T> ? 0 : v);
        }
        break; }
    case 9: {   // promise_with_default: a promise that resolves with its default value when it dies unresolved
        if constexpr (std::is_void_v<T> || std::is_reference_v<T>) { resolver<T>(p, me, 5); return; }
        else {
            dsim::cell_add(ATTEMPTS, 1);
            auto dying = [&] { if constexpr (std::is_same_v<T, std::unique_ptr<long>>) return cocls::promise_with_default<T>(std::move(p), std::make_unique<long>(v)); else return cocls::promise_with_default<T>(std::move(p), v); }();
            if (dying) won(K_VALUE, v);
        }
        break; }
    case 10: case 11: {   // the compile-time-default variants (promise_with_default_v / _vp): integral value types only
        if constexpr (!std::is_same_v<T, long>) { resolver<T>(p, me, 9); return; }
        else {
            dsim::cell_add(ATTEMPTS, 1);
            if (action == 10) { cocls::promise_with_default_v<long, 7707L> dying(std::move(p)); if (dying) won(K_VALUE, 7707); }
            else { cocls::promise_with_default_vp<long, &g_default_value> dying(std::move(p)); if (dying) won(K_VALUE, g_default_value); }
        }
        break; }
    }
}

template <typename T> void run() {
    int nres = 2 + dsim::choose(3);
    int nwait = dsim::choose(3);
    int act[4], wk[2];
    for (int i = 0; i < nres; i++) act[i] = dsim::choose(12);
    for (int i = 0; i < nwait; i++) wk[i] = dsim::choose(4);
    dsim::plan_note("resolvers=%d actions=", nres);
    for (int i = 0; i < nres; i++) dsim::plan_note("%d", act[i]);
    dsim::plan_note(" waiters=%d kinds=", nwait);
    for (int i = 0; i < nwait; i++) dsim::plan_note("%d", wk[i]);
    {
        cocls::future<T> f;
        {
            cocls::promise<T> p = f.get_promise();
            std::vector<std::thread> th;
            for (int i = 0; i < nwait; i++) th.emplace_back([&, i] {
                switch (wk[i]) {
                case 0: coro_waiter<T>(f, i, 0).join(); break;
                case 1: coro_waiter<T>(f, i, 1).join(); break;
                case 2: f.sync(); observe(f, i); break;
                default: { bool hv = f.has_value(); observe(f, i); if (hv != (dsim::cell_get(WAIT_KIND + i) != K_NOVALUE)) dsim::fail("C01.has_value", "has_value() %d disagrees with value()", (int)hv); break; }
                }
            });
            for (int i = 0; i < nres; i++) th.emplace_back([&, i] { resolver<T>(p, i, act[i]); });
            // join resolvers first (they are the last nres threads), the promise must stay alive for them
            for (int i = nwait; i < nwait + nres; i++) th[i].join();
            bool any_success = dsim::cell_get(SUCCESSES) == 1;
            if (dsim::cell_get(ATTEMPTS) > 0 && !any_success) dsim::fail("C01.no_winner", "%ld resolution attempts on a pending future, none reported success", dsim::cell_get(ATTEMPTS));
            if (!any_success) { if (!p) dsim::fail("C01.promise_lost", "promise is empty although nobody claimed it"); dsim::cell_set(WIN_KIND, K_NOVALUE); }
            else if (p) dsim::fail("C01.still_valid", "the shared promise is still valid after a successful resolution");
            // promise destroyed here: resolves to no-value when nobody called it
            if (any_success && dsim::cell_get(WIN_KIND) != K_NOVALUE || !any_success) { /* waiters are released by now or by the destructor below */ }
            // waiters must be joined after the promise is gone when nobody resolved
            if (any_success) for (int i = 0; i < nwait; i++) th[i].join();
            else {
                // destroy the promise first (scope end below), then join: move threads out
                static thread_local std::vector<std::thread> *keep; (void)keep;
                std::vector<std::thread> late; for (int i = 0; i < nwait; i++) late.push_back(std::move(th[i]));
                th.clear();
                { cocls::promise<T> dying(std::move(p)); }
                for (auto &t : late) t.join();
            }
        }
        if (!f.ready()) dsim::fail("C01.not_resolved", "future not ready after the last promise is gone");
        if (f.pending()) dsim::fail("C01.not_resolved", "future still pending after the last promise is gone");
        long wkind = dsim::cell_get(WIN_KIND), wval = dsim::cell_get(WIN_VAL);
        for (int rep = 0; rep < 3; rep++) {
            observe(f, 9, rep == 2);
            if (dsim::cell_get(WAIT_KIND + 9) != wkind || dsim::cell_get(WAIT_VAL + 9) != wval)
                dsim::fail("C01.result_mismatch", "final result is kind %ld value %ld, the winner supplied kind %ld value %ld (read #%d)", dsim::cell_get(WAIT_KIND + 9), dsim::cell_get(WAIT_VAL + 9), wkind, wval, rep);
        }
        bool hv = f.has_value();
        if (hv != (wkind != K_NOVALUE)) dsim::fail("C01.has_value", "has_value()=%d for winner kind %ld", (int)hv, wkind);
        for (int i = 0; i < nwait; i++) {
            if (!dsim::cell_get(WAIT_DONE + i)) dsim::fail("C01.waiter_not_released", "waiter %d never observed the result", i);
            if (dsim::cell_get(WAIT_KIND + i) != wkind || dsim::cell_get(WAIT_VAL + i) != wval)
                dsim::fail("C01.result_mismatch", "waiter %d observed kind %ld value %ld, the winner supplied kind %ld value %ld", i, dsim::cell_get(WAIT_KIND + i), dsim::cell_get(WAIT_VAL + i), wkind, wval);
        }
        if constexpr (std::is_same_v<T, vs::Counted>) {
            long expect = wkind == K_VALUE ? 1 : 0;
            // producer coroutine (action 7) constructs a temporary T(v) and moves it in: count live instances instead
            long live = vs::Counted::constructed() - vs::Counted::destroyed();
            if (live != expect) dsim::fail("C01.instances", "%ld live instance(s) of the value type while the resolved future exists, expected %ld", live, expect);
        }
    }
    if constexpr (std::is_same_v<T, vs::Counted>) vs::Counted::expect_balanced("C01.instances");
}

// ---- a promise that still owns a pending future is overwritten by move-assignment: that is a drop of the old future
template <typename T> void assignment_mode() {
    int src = dsim::choose(3);        // 0 promise of another future, 1 empty promise, 2 a promise moved from a third party
    int nwait = dsim::choose(3); int wk[2]; for (int i = 0; i < nwait; i++) wk[i] = dsim::choose(2);
    bool threads = dsim::flip();
    dsim::plan_note("assignment over a pending promise: source=%d waiters=%d threads=%d", src, nwait, (int)threads);
    {
        cocls::future<T> f_old, f_new;
        cocls::promise<T> p = f_old.get_promise();
        dsim::cell_set(WIN_KIND, K_NOVALUE); dsim::cell_set(WIN_VAL, 0);
        std::vector<std::thread> th;
        cocls::future<void> cw[2];
        for (int i = 0; i < nwait; i++) {
            if (threads) th.emplace_back([&, i] { if (wk[i]) coro_waiter<T>(f_old, i, 0).join(); else { f_old.sync(); observe(f_old, i); } });
            else cw[i] << [&] { return coro_waiter<T>(f_old, i, wk[i]).start(); };
        }
        cocls::promise<T> other = src == 1 ? cocls::promise<T>() : f_new.get_promise();
        if (src == 2) { cocls::promise<T> via(std::move(other)); p = std::move(via); } else p = std::move(other);
        // the old future must be resolved (no value) by the assignment itself, without anybody else's help
        if (!f_old.ready()) dsim::fail("C01.assignment_forgets_future", "a promise owning a pending future was overwritten by move-assignment and the old future is still pending");
        for (auto &t : th) t.join();
        for (int i = 0; i < nwait; i++) { if (!threads) cw[i].sync(); if (dsim::cell_get(WAIT_KIND + i) != K_NOVALUE) dsim::fail("C01.result_mismatch", "waiter %d of the dropped future observed kind %ld", i, dsim::cell_get(WAIT_KIND + i)); }
        if (f_old.has_value()) dsim::fail("C01.has_value", "dropped future reports a value");
        if (src != 1) {
            bool ok; if constexpr (std::is_void_v<T>) ok = p(); else ok = Tr<T>::resolve(p, 77);
            if (!ok) dsim::fail("C01.no_winner", "the assigned promise refused to resolve its new future");
            observe(f_new, 9);
            if (dsim::cell_get(WAIT_KIND + 9) != K_VALUE || (!std::is_void_v<T> && dsim::cell_get(WAIT_VAL + 9) != 77)) dsim::fail("C01.result_mismatch", "new future holds kind %ld value %ld", dsim::cell_get(WAIT_KIND + 9), dsim::cell_get(WAIT_VAL + 9));
        } else if (p) dsim::fail("C01.still_valid", "promise assigned from an empty promise is valid");
    }
    if constexpr (std::is_same_v<T, vs::Counted>) vs::Counted::expect_balanced("C01.instances");
}
// ---- the move-assignment races with a call of the same promise object from another thread (both work on the promise's atomic owner
// pointer): the call hits the old future, the new one, or nothing - never a future that has already been resolved
template <typename T> void assignment_race_mode() {
    int nwait = 1 + dsim::choose(2); int wk[2]; for (int i = 0; i < nwait; i++) wk[i] = dsim::choose(2);
    dsim::plan_note("assignment races with a call of the same promise: waiters=%d", nwait);
    {
        cocls::future<T> f_old, f_new;
        cocls::promise<T> p = f_old.get_promise();
        std::vector<std::thread> th;
        for (int i = 0; i < nwait; i++) th.emplace_back([&, i] { if (wk[i]) coro_waiter<T>(f_old, i, 0).join(); else { f_old.sync(); observe(f_old, i); } });
        cocls::promise<T> other = f_new.get_promise();
        bool rival_ok = false;
        std::thread rival([&] { if constexpr (std::is_void_v<T>) rival_ok = p(); else rival_ok = Tr<T>::resolve(p, 55); });
        p = std::move(other);
        rival.join();
        if (!f_old.ready()) dsim::fail("C01.assignment_forgets_future", "a promise owning a pending future was overwritten by move-assignment and the old future is still pending");
        for (auto &t : th) t.join();
        observe(f_old, 8);
        long k_old = dsim::cell_get(WAIT_KIND + 8), v_old = dsim::cell_get(WAIT_VAL + 8);
        for (int i = 0; i < nwait; i++) if (dsim::cell_get(WAIT_KIND + i) != k_old || dsim::cell_get(WAIT_VAL + i) != v_old)
            dsim::fail("C01.result_changed", "waiter %d of the old future was woken with kind %ld value %ld, the future now holds kind %ld value %ld", i, dsim::cell_get(WAIT_KIND + i), dsim::cell_get(WAIT_VAL + i), k_old, v_old);
        bool in_old = k_old == K_VALUE;
        if (k_old != K_VALUE && k_old != K_NOVALUE) dsim::fail("C01.result_mismatch", "old future ended with kind %ld", k_old);
        if (in_old && !std::is_void_v<T> && v_old != 55) dsim::fail("C01.result_mismatch", "old future holds %ld, the only value offered to it was 55", v_old);
        bool ok2; if constexpr (std::is_void_v<T>) ok2 = p(); else ok2 = Tr<T>::resolve(p, 77);
        if (!f_new.ready()) dsim::fail("C01.no_winner", "the new future is pending although its promise was called");
        observe(f_new, 9);
        bool in_new = !ok2;          // the assigned promise is refused only when the racing call had already reached the new future
        if (dsim::cell_get(WAIT_KIND + 9) != K_VALUE || (!std::is_void_v<T> && dsim::cell_get(WAIT_VAL + 9) != (ok2 ? 77 : 55))) dsim::fail("C01.result_mismatch", "new future holds kind %ld value %ld (call of the assigned promise accepted: %d)", dsim::cell_get(WAIT_KIND + 9), dsim::cell_get(WAIT_VAL + 9), (int)ok2);
        if (in_old && in_new) dsim::fail("C01.two_winners", "one call resolved both the old and the new future");
        if (rival_ok != (in_old || in_new)) dsim::fail(rival_ok ? "C01.winner_without_effect" : "C01.loser_left_trace", "the racing call reported %d; old future has its value: %d, new future has its value: %d", (int)rival_ok, (int)in_old, (int)in_new);
    }
    if constexpr (std::is_same_v<T, vs::Counted>) vs::Counted::expect_balanced("C01.instances");
}
} // namespace

void dsim_scenario() {
    if (dsim::choose(6) == 5) { int t = dsim::choose(3); bool race = dsim::flip();
        if (race) { if (t == 0) assignment_race_mode<long>(); else if (t == 1) assignment_race_mode<void>(); else assignment_race_mode<vs::Counted>(); return; }
        if (t == 0) assignment_mode<long>(); else if (t == 1) assignment_mode<void>(); else assignment_mode<vs::Counted>(); return; }
    int ty = dsim::choose(5);
    switch (ty) {
    case 0: dsim::plan_note("T=long "); run<long>(); break;
    case 1: dsim::plan_note("T=void "); run<void>(); break;
    case 2: dsim::plan_note("T=unique_ptr "); run<std::unique_ptr<long>>(); break;
    case 3: dsim::plan_note("T=long& "); run<long &>(); break;
    default: dsim::plan_note("T=Counted "); run<vs::Counted>(); break;
    }
}
