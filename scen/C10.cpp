// C10 — bounded queue: back-pressure without losing or duplicating items (DESIGN §7 C10)
// The reference model is taken from the property statement, not from the code.
#include "common.h"
#include <cocls/queue.h>
#include <cocls/async.h>
#include <cocls/future.h>
#include <deque>
#include <memory>
#include <thread>
#include <vector>

const char *const dsim_property = "C10";
namespace {
enum { NPOPPED = 0, NFAILED = 1, UNBLOCK_TRUE = 2, POPPED = 1000, OUTCOME = 3000 /* per value: 1 ok, 2 failed */, FAILCODE = 5000 };
template <typename T> struct V;
template <> struct V<long> { static long get(long &x) { return x; } };
template <> struct V<vs::Counted> { static long get(vs::Counted &x) { return x.value(); } };

template <typename T> void single_thread() {
    struct Push { std::unique_ptr<cocls::future<void>> f; long val; bool m_done = false; int m_kind = 0; long m_code = 0; };
    struct Pop { std::unique_ptr<cocls::future<T>> f; bool m_done = false; long m_val = 0; };
    unsigned limit = 1 + dsim::choose(4);
    int nops = 2 + dsim::choose(16);
    dsim::plan_note("single-thread limit=%u ops:", limit);
    std::deque<long> m_items; std::deque<int> m_blocked, m_wait;
    std::vector<Push> pushes; std::vector<Pop> pops;
    auto q = std::make_unique<cocls::limited_queue<T>>(limit);
    long next_val = 1;
    auto verify = [&](const char *after) {
        for (size_t i = 0; i < pushes.size(); i++) {
            Push &p = pushes[i]; bool rdy = p.f->ready();
            if (rdy != p.m_done) dsim::fail(rdy ? "C10.push_completed_early" : "C10.push_pending_below_limit", "after %s: push #%zu (value %ld) is %s, the model says %s (limit %u, %zu items waiting in the model)", after, i, p.val, rdy ? "complete" : "pending", p.m_done ? "complete" : "pending", limit, m_items.size());
            if (!rdy) continue;
            int kind; long code = 0;
            try { p.f->value(); kind = 1; } catch (const vs::TestError &e) { kind = 2; code = e.code; } catch (const cocls::await_canceled_exception &) { kind = 3; }
            if (kind != p.m_kind || code != p.m_code) dsim::fail("C10.push_result", "after %s: push #%zu ended with kind %d code %ld, model kind %d code %ld", after, i, kind, code, p.m_kind, p.m_code);
        }
        for (size_t i = 0; i < pops.size(); i++) {
            Pop &p = pops[i]; bool rdy = p.f->ready();
            if (rdy != p.m_done) dsim::fail("C10.pop_state", "after %s: pop #%zu is %s, model says %s", after, i, rdy ? "complete" : "pending", p.m_done ? "complete" : "pending");
            if (!rdy) continue;
            long v = -1; try { v = V<T>::get(p.f->value()); } catch (...) { dsim::fail("C10.pop_state", "pop #%zu threw", i); }
            if (v != p.m_val) dsim::fail(v < p.m_val ? "C10.duplicate_or_reorder" : "C10.lost_or_reorder", "after %s: pop #%zu returned %ld, model says %ld", after, i, v, p.m_val);
        }
        if (q->size() != m_items.size()) dsim::fail("C10.size", "after %s: size() is %zu, model has %zu items waiting", after, q->size(), m_items.size());
    };
    for (int s = 0; s < nops; s++) {
        int op = dsim::choose(5);
        if (op == 0 || op == 3 || op == 4) {
            long v = next_val++;
            pushes.emplace_back(); Push &p = pushes.back(); p.val = v;
            p.f = std::make_unique<cocls::future<void>>([&] { return q->push(v); });
            if (!m_wait.empty()) { Pop &w = pops[m_wait.front()]; m_wait.pop_front(); w.m_done = true; w.m_val = v; p.m_done = true; p.m_kind = 1; }
            else if (m_items.size() < limit) { m_items.push_back(v); p.m_done = true; p.m_kind = 1; }
            else m_blocked.push_back((int)pushes.size() - 1);
            dsim::plan_note(" push"); verify("push");
        } else if (op == 1) {
            pops.emplace_back(); Pop &p = pops.back();
            p.f = std::make_unique<cocls::future<T>>([&] { return q->pop(); });
            if (!m_items.empty()) {
                p.m_done = true; p.m_val = m_items.front(); m_items.pop_front();
                if (!m_blocked.empty()) { Push &b = pushes[m_blocked.front()]; m_blocked.pop_front(); m_items.push_back(b.val); b.m_done = true; b.m_kind = 1; }
            } else m_wait.push_back((int)pops.size() - 1);
            dsim::plan_note(" pop"); verify("pop");
        } else {
            long code = 500 + s;
            bool r = q->unblock_push(vs::make_err(code));
            bool m_r = !m_blocked.empty();
            if (m_r) { Push &b = pushes[m_blocked.front()]; m_blocked.pop_front(); b.m_done = true; b.m_kind = 2; b.m_code = code; }
            if (r != m_r) dsim::fail("C10.unblock", "unblock_push returned %d, model %d", (int)r, (int)m_r);
            dsim::plan_note(" unblock"); verify("unblock_push");
        }
    }
    // drain: everything accepted must come out in order
    while (!m_items.empty()) {
        pops.emplace_back(); Pop &p = pops.back();
        p.f = std::make_unique<cocls::future<T>>([&] { return q->pop(); });
        p.m_done = true; p.m_val = m_items.front(); m_items.pop_front();
        if (!m_blocked.empty()) { Push &b = pushes[m_blocked.front()]; m_blocked.pop_front(); m_items.push_back(b.val); b.m_done = true; b.m_kind = 1; }
        verify("drain pop");
    }
    q.reset();
    for (int i : m_wait) pops[i].m_done = true;   // cancelled
    // pops cancelled by destruction: only check they are ready and carry no value
    for (int i : m_wait) { if (!pops[i].f->ready()) dsim::fail("C10.pop_state", "pop still pending after destruction"); if (pops[i].f->has_value()) dsim::fail("C10.pop_state", "cancelled pop has a value"); }
}

// ------------------------------------------------------------------ threads
void log_pop(int consumer, long v) { long k = dsim::cell_add(NPOPPED, 1) - 1; dsim::cell_set(POPPED + 2 * (int)k, consumer); dsim::cell_set(POPPED + 2 * (int)k + 1, v); }
constexpr long SENTINEL = 99999;
template <typename T> cocls::async<void> coro_producer(cocls::limited_queue<T> &q, int me, int n) {
    for (int j = 0; j < n; j++) {
        long v = (me + 1) * 100 + j; int slot = me * 10 + j;
        try { co_await q.push(v); dsim::cell_set(OUTCOME + slot, 1); }
        catch (const vs::TestError &e) { dsim::cell_set(OUTCOME + slot, 2); dsim::cell_set(FAILCODE + slot, e.code); }
    }
}
template <typename T> cocls::async<void> coro_consumer(cocls::limited_queue<T> &q, int me) {
    for (;;) { T v = std::move(co_await q.pop()); long x = V<T>::get(v); if (x == SENTINEL) co_return; log_pop(me, x); }
}

// event-driven parties: completions run inline in whoever resolves the promise and re-enter the queue from the handler
template <typename T> struct CbConsumer {
    cocls::limited_queue<T> &q; int me; cocls::promise<void> done;
    cocls::suspend_point<void> on_item(cocls::future<T> &f) noexcept {
        long x = V<T>::get(f.value());
        (void)q.size();
        if (x == SENTINEL) return done();
        log_pop(me, x); arm(); return {};
    }
    cocls::call_fn_future_awaiter<&CbConsumer::on_item> awt{*this};
    void arm() { awt << [this] { return q.pop(); }; }
    CbConsumer(cocls::limited_queue<T> &q, int me) : q(q), me(me) {}
};
template <typename T> struct CbProducer {
    cocls::limited_queue<T> &q; int me, n, j = 0; cocls::promise<void> done;
    cocls::suspend_point<void> on_pushed(cocls::future<void> &f) noexcept {
        int slot = me * 10 + j;
        try { f.value(); dsim::cell_set(OUTCOME + slot, 1); } catch (const vs::TestError &e) { dsim::cell_set(OUTCOME + slot, 2); dsim::cell_set(FAILCODE + slot, e.code); }
        (void)q.empty();
        if (++j < n) { arm(); return {}; }
        return done();
    }
    cocls::call_fn_future_awaiter<&CbProducer::on_pushed> awt{*this};
    void arm() { long v = (me + 1) * 100 + j; awt << [this, v] { return q.push(v); }; }
    CbProducer(cocls::limited_queue<T> &q, int me, int n) : q(q), me(me), n(n) {}
};
template <typename T> void multi_thread() {
    unsigned limit = 1 + dsim::choose(4);
    int np = 1 + dsim::choose(3), nc = 1 + dsim::choose(3), nunb = dsim::choose(3);
    int pn[3], pk[3], ck[3];
    for (int i = 0; i < np; i++) { pn[i] = 1 + dsim::choose(4); pk[i] = dsim::choose(3); }
    for (int i = 0; i < nc; i++) ck[i] = dsim::choose(3);
    dsim::plan_note("threads limit=%u producers=%d consumers=%d unblocks=%d", limit, np, nc, nunb);
    for (int i = 0; i < np; i++) dsim::plan_note(" P%d:%s%d", i, pk[i] == 2 ? "cb" : pk[i] ? "blk" : "coro", pn[i]);
    for (int i = 0; i < nc; i++) dsim::plan_note(" C%d:%s", i, ck[i] == 2 ? "cb" : ck[i] ? "blk" : "coro");
    {
        cocls::limited_queue<T> q(limit);
        std::vector<std::thread> prod, cons;
        for (int i = 0; i < nc; i++) cons.emplace_back([&, i] {
            if (ck[i] == 0) coro_consumer<T>(q, i).join();
            else if (ck[i] == 2) { CbConsumer<T> c(q, i); cocls::future<void> fin; c.done = fin.get_promise(); c.arm(); fin.wait(); }
            else for (;;) { auto f = q.pop(); long x = V<T>::get(f.wait()); if (x == SENTINEL) break; log_pop(i, x); }
        });
        for (int i = 0; i < np; i++) prod.emplace_back([&, i] {
            if (pk[i] == 0) coro_producer<T>(q, i, pn[i]).join();
            else if (pk[i] == 2) { CbProducer<T> p(q, i, pn[i]); cocls::future<void> fin; p.done = fin.get_promise(); p.arm(); fin.wait(); }
            else for (int j = 0; j < pn[i]; j++) {
                long v = (i + 1) * 100 + j; int slot = i * 10 + j;
                auto f = q.push(v);
                try { f.wait(); dsim::cell_set(OUTCOME + slot, 1); } catch (const vs::TestError &e) { dsim::cell_set(OUTCOME + slot, 2); dsim::cell_set(FAILCODE + slot, e.code); }
            }
        });
        std::thread unb([&] { for (int j = 0; j < nunb; j++) { if (q.unblock_push(vs::make_err(800 + j))) dsim::cell_add(UNBLOCK_TRUE, 1); std::this_thread::yield(); } });
        for (auto &t : prod) t.join();
        unb.join();
        for (int i = 0; i < nc; i++) { auto f = q.push(SENTINEL); f.wait(); }
        for (auto &t : cons) t.join();
        if (q.size() != 0) dsim::fail("C10.size", "queue holds %zu items after every consumer saw its sentinel", q.size());
    }
    long npopped = dsim::cell_get(NPOPPED), nfailed = 0, nok = 0;
    std::vector<long> seen; long last[3][3]; for (auto &a : last) for (auto &b : a) b = -1;
    for (long k = 0; k < npopped; k++) {
        int c = (int)dsim::cell_get(POPPED + 2 * (int)k); long v = dsim::cell_get(POPPED + 2 * (int)k + 1);
        long p = v / 100 - 1, seq = v % 100;
        if (p < 0 || p >= np || seq >= pn[p]) dsim::fail("C10.garbage", "consumer %d popped %ld which nobody pushed", c, v);
        for (long s : seen) if (s == v) dsim::fail("C10.duplicate", "value %ld delivered twice", v);
        seen.push_back(v);
        if (dsim::cell_get(OUTCOME + (int)p * 10 + (int)seq) == 2) dsim::fail("C10.withdrawn_item_delivered", "value %ld was delivered although its push was failed by unblock_push", v);
        if (seq <= last[c][p]) dsim::fail("C10.order", "consumer %d received %ld out of its producer's order", c, v);
        last[c][p] = seq;
    }
    for (int p = 0; p < np; p++) for (int j = 0; j < pn[p]; j++) {
        long o = dsim::cell_get(OUTCOME + p * 10 + j);
        if (o == 0) dsim::fail("C10.push_result", "push of %d never completed", (p + 1) * 100 + j);
        if (o == 2) nfailed++; else nok++;
    }
    if (nok != npopped) dsim::fail("C10.lost", "%ld pushes completed successfully but %ld values were delivered", nok, npopped);
    if (nfailed != dsim::cell_get(UNBLOCK_TRUE)) dsim::fail("C10.unblock", "%ld pushes failed but %ld unblock_push calls returned true", nfailed, dsim::cell_get(UNBLOCK_TRUE));
    if constexpr (std::is_same_v<T, vs::Counted>) vs::Counted::expect_balanced("C10.instances");
}
} // namespace

void dsim_scenario() {
    int ty = dsim::choose(2), mode = dsim::choose(3);
    dsim::plan_note("T=%s ", ty == 0 ? "long" : "Counted");
    if (mode == 0) { if (ty == 0) single_thread<long>(); else single_thread<vs::Counted>(); }
    else { if (ty == 0) multi_thread<long>(); else multi_thread<vs::Counted>(); }
}
