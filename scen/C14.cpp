// C14 — generator aggregator: union of all sources, per-source order preserved (DESIGN §7 C14)
#include "common.h"
#include <cocls/generator_aggregator.h>
#include <cocls/generator.h>
#include <cocls/async.h>
#include <thread>
#include <vector>

const char *const dsim_property = "C14";
namespace {
enum { STOP = 0, PEND_READY = 100, PEND_DONE = 200, NARGS = 300 /* per source */, ARGS = 400 /* 20 per source */, GUARDS = 600 };
enum Step { Y = 0, AWAIT_OTHER, THROW, RET };
constexpr int MAXS = 5, MAXK = 8;
struct Script { int n; int kind[MAXK]; };
Script scripts[MAXS]; int nsrc;
cocls::promise<void> pend[MAXS * MAXK];

cocls::future<void> pending(int slot) { return [slot](cocls::promise<void> p) { pend[slot] = std::move(p); vs::cell_set_hb(PEND_READY + slot, 1); }; }
void complete(int slot) { if (!dsim::cell_xchg(PEND_DONE + slot, 1)) { (void)vs::cell_get_hb(PEND_READY + slot); pend[slot](); } }
struct Guard { int s; explicit Guard(int s) : s(s) { dsim::cell_add(GUARDS + s, 1); } ~Guard() { dsim::cell_add(GUARDS + s, -1); } };

cocls::generator<long> source(int s) {
    Guard g(s); long seq = 0;
    for (int k = 0; k < scripts[s].n; k++) {
        switch (scripts[s].kind[k]) {
        case Y: co_yield (long)(s * 100 + seq++); break;
        case AWAIT_OTHER: co_await pending(s * MAXK + k); break;
        case THROW: throw vs::TestError(s);
        default: co_return;
        }
    }
}
void record_arg(int s, long a) { long n = dsim::cell_add(NARGS + s, 1) - 1; if (n < 20) dsim::cell_set(ARGS + 20 * s + (int)n, a); }
cocls::generator<long, long> source_arg(int s) {
    Guard g(s); long seq = 0;
    record_arg(s, co_yield nullptr);
    for (int k = 0; k < scripts[s].n; k++) {
        switch (scripts[s].kind[k]) {
        case Y: { long &r = co_yield (long)(s * 100 + seq++); record_arg(s, r); break; }
        case AWAIT_OTHER: co_await pending(s * MAXK + k); break;
        case THROW: throw vs::TestError(s);
        default: co_return;
        }
    }
}
struct Observed { std::vector<long> vals; bool ended = false, threw = false; long code = -1; };
// event-driven consumer: a callback awaiter on the future returned by the aggregate; its handler runs inline in whichever thread lets
// a source reach its next yield and asks the aggregate for the next value from there
template <typename G> struct CbAggConsumer : cocls::awaiter {
    G &gen; size_t limit; Observed &o; cocls::future<long> f; cocls::promise<void> done; long argc = 1000;
    CbAggConsumer(G &g, size_t limit, Observed &o) : gen(g), limit(limit), o(o) { set_resume_fn([](cocls::awaiter *me, void *) noexcept -> cocls::suspend_point<void> { auto *c = static_cast<CbAggConsumer *>(me); c->record(); return c->pump(); }); }
    void record() { try { if (!f.has_value()) o.ended = true; else o.vals.push_back(f.value()); } catch (const vs::TestError &e) { o.threw = true; o.code = e.code; } }
    cocls::suspend_point<void> pump() {
        while (o.vals.size() < limit && !o.ended && !o.threw) {
            long arg = argc++; (void)arg;
            f << [&] { if constexpr (G::arg_is_void) return gen(); else return gen(arg); };
            cocls::co_awaiter<cocls::future<long>> aw(f);
            if (aw.subscribe(this)) return {};
            record();
        }
        return done();
    }
};

template <typename G> void consume_normal(G &gen, const int *style, size_t limit, Observed &o) {
    long argc = 1000;
    for (size_t i = 0; o.vals.size() < limit && !o.ended && !o.threw; i++) {
        long arg = argc++;
        try {
            if (style[i % 8] == 0) {
                bool ok; if constexpr (G::arg_is_void) ok = gen.next(); else ok = gen.next(arg);
                if (!ok) o.ended = true; else o.vals.push_back(gen.value());
            } else {
                auto f = [&] { if constexpr (G::arg_is_void) return gen(); else return gen(arg); }();
                if (style[i % 8] == 1) { try { o.vals.push_back(f.wait()); } catch (const cocls::await_canceled_exception &) { o.ended = true; } }
                else { if (!f.has_value()) o.ended = true; else o.vals.push_back(f.value()); }
            }
        } catch (const vs::TestError &e) { o.threw = true; o.code = e.code; }
    }
}
template <typename G> cocls::async<void> consume_coro(G &gen, const int *style, size_t limit, Observed &o) {
    long argc = 1000;
    for (size_t i = 0; o.vals.size() < limit && !o.ended && !o.threw; i++) {
        long arg = argc++; (void)arg;
        try {
            if (style[i % 8] % 2 == 0) { bool ok; if constexpr (G::arg_is_void) ok = co_await gen.next(); else ok = co_await gen.next(arg); if (!ok) o.ended = true; else o.vals.push_back(gen.value()); }
            else { auto f = [&] { if constexpr (G::arg_is_void) return gen(); else return gen(arg); }(); try { o.vals.push_back(co_await f); } catch (const cocls::await_canceled_exception &) { o.ended = true; } }
        } catch (const vs::TestError &e) { o.threw = true; o.code = e.code; }
    }
}
}

void dsim_scenario() {
    nsrc = dsim::choose(6);
    int mode = dsim::choose(4);      // 0 normal code, 1 coroutine consumer, 2 sources with argument (normal code), 3 event-driven consumer (callback awaiter)
    bool with_arg = mode == 2 || dsim::choose(3) == 2;     // sources with argument under every consumer
    int style[8]; for (int &s : style) s = dsim::choose(3);
    std::vector<long> exp_count(nsrc, 0); int thrower = -1, thrower2 = -1; size_t total = 0; int nthrow = 0;
    for (int s = 0; s < nsrc; s++) {
        scripts[s].n = dsim::choose(MAXK + 1);
        bool over = false;
        for (int k = 0; k < scripts[s].n; k++) {
            int kd = dsim::choose(8);
            scripts[s].kind[k] = kd <= 3 ? Y : kd <= 5 ? AWAIT_OTHER : kd == 6 ? THROW : RET;
            if (scripts[s].kind[k] == THROW && nthrow >= 2) scripts[s].kind[k] = RET;     // up to two throwing sources; which of their exceptions is reported is unspecified
            if (!over && scripts[s].kind[k] == Y) exp_count[s]++;
            if (!over && scripts[s].kind[k] == THROW) { if (thrower < 0) thrower = s; else thrower2 = s; nthrow++; over = true; }
            if (scripts[s].kind[k] == RET) over = true;
        }
        total += exp_count[s];
    }
    size_t limit = (dsim::choose(4) == 3 && total) ? dsim::choose((unsigned)total) : 100000;
    dsim::plan_note("sources=%d mode=%d arg=%d limit=%zu", nsrc, mode, (int)with_arg, limit);
    for (int s = 0; s < nsrc; s++) { dsim::plan_note(" S%d:", s); for (int k = 0; k < scripts[s].n; k++) dsim::plan_note("%c", "YaTR"[scripts[s].kind[k]]); }
    std::thread helper([&] {
        for (;;) {
            bool stop = dsim::cell_get(STOP);
            for (int slot = 0; slot < MAXS * MAXK; slot++) if (dsim::cell_get(PEND_READY + slot) && !dsim::cell_get(PEND_DONE + slot)) complete(slot);
            if (stop) break;
            std::this_thread::yield();
        }
    });
    Observed o;
    {
        auto drive = [&](auto &agg) {
            if (mode == 1) consume_coro(agg, style, limit, o).join();
            else if (mode == 3) { CbAggConsumer<std::remove_reference_t<decltype(agg)>> c(agg, limit, o); cocls::future<void> fin; c.done = fin.get_promise(); c.pump().clear(); fin.wait(); }
            else consume_normal(agg, style, limit, o);
        };
        // the aggregate owns its sources from the moment it exists: the vector they were handed over in may be gone (built in a helper
        // that returns the aggregate) before the aggregate is asked for the first time
        bool in_helper = dsim::flip();
        if (with_arg) {
            auto build = [&] { std::vector<cocls::generator<long, long>> gens; for (int s = 0; s < nsrc; s++) gens.push_back(source_arg(s)); return cocls::generator_aggregator(std::move(gens)); };
            if (in_helper) { auto agg = build(); drive(agg); }
            else { std::vector<cocls::generator<long, long>> gens; for (int s = 0; s < nsrc; s++) gens.push_back(source_arg(s)); auto agg = cocls::generator_aggregator(std::move(gens)); drive(agg); }
        } else {
            auto build = [&] { std::vector<cocls::generator<long>> gens; for (int s = 0; s < nsrc; s++) gens.push_back(source(s)); return cocls::generator_aggregator(std::move(gens)); };
            if (in_helper) { auto agg = build(); drive(agg); }
            else { std::vector<cocls::generator<long>> gens; for (int s = 0; s < nsrc; s++) gens.push_back(source(s)); auto agg = cocls::generator_aggregator(std::move(gens)); drive(agg); }
        }
        // aggregate destroyed here: blocks until in-flight asynchronous sources have delivered
    }
    dsim::cell_set(STOP, 1);
    helper.join();
    // ---- oracles
    std::vector<long> next_seq(nsrc, 0);
    for (size_t i = 0; i < o.vals.size(); i++) {
        long v = o.vals[i]; long s = v / 100, q = v % 100;
        if (s < 0 || s >= nsrc || q >= exp_count[s]) dsim::fail("C14.foreign_value", "consumed %ld which no source yields", v);
        if (q != next_seq[s]) dsim::fail(q < next_seq[s] ? "C14.duplicate" : "C14.source_order", "consumed %ld but the next value of source %ld is %ld", v, s, s * 100 + next_seq[s]);
        next_seq[s]++;
    }
    if (limit >= total) {
        for (int s = 0; s < nsrc; s++) if (next_seq[s] != exp_count[s]) dsim::fail("C14.lost_value", "source %d yields %ld values, %ld were consumed", s, exp_count[s], next_seq[s]);
        if (thrower >= 0) { if (!o.threw || (o.code != thrower && o.code != thrower2)) dsim::fail("C14.exception", "source %d throws; consumer saw threw=%d code=%ld ended=%d", thrower, (int)o.threw, o.code, (int)o.ended); }
        else if (!o.ended || o.threw) dsim::fail("C14.end", "all sources ended; consumer saw ended=%d threw=%d", (int)o.ended, (int)o.threw);
    } else if (o.vals.size() != limit || o.ended) dsim::fail("C14.end", "consumer asked for %zu of %zu values, got %zu, ended=%d", limit, total, o.vals.size(), (int)o.ended);
    if (with_arg && !o.vals.empty()) {
        // first call: every source receives its argument; call k (k>=1): the source whose value call k-1 returned
        std::vector<long> idx(nsrc, 1);
        for (int s = 0; s < nsrc; s++) if (dsim::cell_get(NARGS + s) < 1 || dsim::cell_get(ARGS + 20 * s) != 1000) dsim::fail("C14.argument", "source %d did not receive the argument of the first call (got %ld values, first %ld)", s, dsim::cell_get(NARGS + s), dsim::cell_get(ARGS + 20 * s));
        size_t calls = o.vals.size() + ((o.ended || o.threw) ? 1 : 0);
        for (size_t k = 1; k < calls; k++) {
            long s = o.vals[k - 1] / 100;
            if (idx[s] >= 20) continue;
            if (dsim::cell_get(NARGS + s) <= idx[s] || dsim::cell_get(ARGS + 20 * s + (int)idx[s]) != 1000 + (long)k) dsim::fail("C14.argument", "argument of call %zu must go to source %ld (whose value the previous call returned); that source received %ld", k, s, dsim::cell_get(NARGS + s) > idx[s] ? dsim::cell_get(ARGS + 20 * s + (int)idx[s]) : -1);
            idx[s]++;
        }
    }
    for (int s = 0; s < nsrc; s++) if (dsim::cell_get(GUARDS + s) != 0) dsim::fail("C14.source_not_destroyed", "locals of source %d not destroyed exactly once (balance %ld)", s, dsim::cell_get(GUARDS + s));
    for (auto &p : pend) p = cocls::promise<void>();
}
