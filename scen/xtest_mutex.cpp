// exploratory (not a registered check): the repository's tests/mutex.cpp scenario under the simulator
#include "common.h"
#include <cocls/mutex.h>
#include <cocls/future.h>
#include <cocls/async.h>
#include <thread>
const char *const dsim_property = "X";
static void run_in_thread(cocls::suspend_point<void> &&pt, std::atomic<bool> &start) {
    std::thread thr([pt = std::move(pt), &start]() mutable { start.wait(false); pt.clear(); });
    thr.detach();
}
static cocls::async<void> coro_test1(cocls::mutex &mx, int id) { cocls::mutex::ownership own = co_await mx.lock(); dsim::cell_add(1, id); own.release(); }
static cocls::async<void> coro_test2(cocls::mutex &mx, int id) { cocls::mutex::ownership own = co_await mx.lock(); dsim::cell_add(1, id); co_await own.release(); }
static cocls::future<void> coro_test(cocls::mutex &mx, int id) {
    cocls::mutex::ownership own = co_await mx.lock();
    std::atomic<bool> start(false);
    cocls::future<void> f1, f2, f3, f4;
    run_in_thread(coro_test1(mx, id + 1).start(f1.get_promise()), start);
    run_in_thread(coro_test2(mx, id + 2).start(f2.get_promise()), start);
    run_in_thread(coro_test1(mx, id + 3).start(f3.get_promise()), start);
    run_in_thread(coro_test2(mx, id + 4).start(f4.get_promise()), start);
    start.store(true); start.notify_all();
    co_await own.release();
    co_await f1; co_await f2; co_await f3; co_await f4;
}
void dsim_scenario() {
    dsim::config().leak_check = false;
    cocls::mutex mx;
    int n = 1 + dsim::choose(2);
    for (int i = 0; i < n; i++) coro_test(mx, i * 10).join();
}
