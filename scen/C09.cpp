// C09 — awaitable queue: each item delivered exactly once, in order (DESIGN §7 C09)
#include "common.h"
#include "linz.h"
#include <cocls/queue.h>
#include <cocls/async.h>
#include <cocls/future.h>
#include <deque>
#include <memory>
#include <thread>
#include <vector>

const char *const dsim_property = "C09";
namespace {
enum { CLOCK = 0, NOPS = 1, QUIET = 2, NPOPPED = 3, UNBLOCK_TRUE = 4, EXC_SEEN = 5, CANCELLED = 6, CONS_DONE = 7, VOID_POPS = 8,
       RETURNED = 20 /* per consumer: control returned to its thread */, POPPED = 1000 /* log of (consumer,value) */, OPS = 3000, EXC_CODES = 5000 };
long stamp() { return dsim::cell_add(CLOCK, 1); }
int op_begin(int type, long arg) { int k = (int)dsim::cell_add(NOPS, 1) - 1; if (k < 64) { dsim::cell_set(OPS + 4 * k, type); dsim::cell_set(OPS + 4 * k + 1, arg); dsim::cell_set(OPS + 4 * k + 2, stamp()); dsim::cell_set(OPS + 4 * k + 3, INT64_MAX); } return k; }
void op_end(int k, long arg) { if (k < 64) { dsim::cell_set(OPS + 4 * k + 1, arg); dsim::cell_set(OPS + 4 * k + 3, stamp()); } }
void op_drop(int k) { if (k < 64) dsim::cell_set(OPS + 4 * k, -1); }

template <typename T> struct V;
template <> struct V<long> { static long get(long &x) { return x; } };
template <> struct V<vs::Counted> { static long get(vs::Counted &x) { return x.value(); } };
// an item type with an initializer-list constructor, pushed emplace-style: push(n, v) must deliver vector(n, v) = {v, v}, whichever path delivers it
using Vec = std::vector<long>;
template <> struct V<Vec> { static long get(Vec &x) { if (x.size() != 2 || x[0] != x[1]) dsim::fail("C09.item_altered", "pushed with (2, v): expected the item {v, v}, popped an item of %zu elements starting with %ld", x.size(), x.empty() ? -1 : x[0]); return x[0]; } };
template <typename T> bool do_push(cocls::queue<T> &q, long v) { if constexpr (std::is_same_v<T, Vec>) return q.push((std::size_t)2, v); else return q.push(v); }

void log_pop(int consumer, long v) { long k = dsim::cell_add(NPOPPED, 1) - 1; dsim::cell_set(POPPED + 2 * (int)k, consumer); dsim::cell_set(POPPED + 2 * (int)k + 1, v); dsim::event("popped", consumer, v); }

// ============================================================ single-threaded histories against the reference model
template <typename T> void single_thread() {
    constexpr bool is_void = std::is_void_v<T>;
    struct Pop { std::unique_ptr<cocls::future<T>> f; bool m_done = false; int m_kind = 0; long m_val = 0; };
    std::deque<long> m_items; long m_count = 0;      // model: FIFO of items (or counter for void), FIFO of waiting pops (indices)
    std::deque<int> m_wait;
    std::vector<Pop> pops;
    int nops = 2 + dsim::choose(14);
    long next_val = 1;
    auto q = std::make_unique<cocls::queue<T>>();
    auto verify = [&](const char *after) {
        for (size_t i = 0; i < pops.size(); i++) {
            Pop &p = pops[i];
            bool rdy = p.f->ready();
            if (rdy != p.m_done) dsim::fail("C09.model", "after %s: pop #%zu is %s but the reference model says %s", after, i, rdy ? "complete" : "pending", p.m_done ? "complete" : "pending");
            if (!rdy) continue;
            int kind; long val = 0;
            try { if constexpr (is_void) { p.f->value(); kind = 1; } else { val = V<T>::get(p.f->value()); kind = 1; } }
            catch (const vs::TestError &e) { kind = 2; val = e.code; }
            catch (const cocls::await_canceled_exception &) { kind = 3; }
            if (kind != p.m_kind || val != p.m_val) dsim::fail("C09.model", "after %s: pop #%zu completed with kind %d value %ld, model says kind %d value %ld", after, i, kind, val, p.m_kind, p.m_val);
        }
        if (q) {
            size_t ms = is_void ? (size_t)m_count : m_items.size();
            if (q->size() != ms) dsim::fail("C09.model", "after %s: size() is %zu, model %zu", after, q->size(), ms);
            if (q->empty() != (ms == 0)) dsim::fail("C09.model", "after %s: empty() disagrees with the model", after);
        }
    };
    dsim::plan_note("single-thread ops:");
    for (int s = 0; s < nops; s++) {
        int op = dsim::choose(4);
        if (op == 0 || op == 3) {            // push
            long v = next_val++;
            bool woke;
            if constexpr (is_void) woke = q->push(); else woke = do_push(*q, v);
            bool m_woke = !m_wait.empty();
            if (m_woke) { Pop &p = pops[m_wait.front()]; m_wait.pop_front(); p.m_done = true; p.m_kind = 1; p.m_val = is_void ? 0 : v; }
            else if (is_void) m_count++; else m_items.push_back(v);
            if (woke != m_woke) dsim::fail("C09.model", "push reported woken=%d, model %d", (int)woke, (int)m_woke);
            dsim::plan_note(" push"); verify("push");
        } else if (op == 1) {                // pop
            pops.emplace_back();
            Pop &p = pops.back();
            p.f = std::make_unique<cocls::future<T>>([&] { return q->pop(); });
            bool have = is_void ? m_count > 0 : !m_items.empty();
            if (have) { p.m_done = true; p.m_kind = 1; if (is_void) m_count--; else { p.m_val = m_items.front(); m_items.pop_front(); } }
            else m_wait.push_back((int)pops.size() - 1);
            dsim::plan_note(" pop"); verify("pop");
        } else {                             // unblock_pop
            long code = 100 + s;
            bool r = q->unblock_pop(vs::make_err(code));
            bool m_r = !m_wait.empty();
            if (m_r) { Pop &p = pops[m_wait.front()]; m_wait.pop_front(); p.m_done = true; p.m_kind = 2; p.m_val = code; }
            if (r != m_r) dsim::fail("C09.model", "unblock_pop returned %d, model %d", (int)r, (int)m_r);
            dsim::plan_note(" unblock"); verify("unblock_pop");
        }
    }
    // destruction with pops still parked: they end with await_canceled_exception
    q.reset();
    for (int i : m_wait) { pops[i].m_done = true; pops[i].m_kind = 3; }
    m_wait.clear();
    verify("queue destruction");
}

// ============================================================ producers and consumers on threads
template <typename T> cocls::async<void> coro_consumer(cocls::queue<T> &q, int me, int npops) {
    for (int i = 0; i < npops; i++) {
        int k = op_begin(1, 0);
        try {
            if constexpr (std::is_void_v<T>) { co_await q.pop(); dsim::cell_add(VOID_POPS, 1); op_drop(k); }
            else { T v = std::move(co_await q.pop()); long x = V<T>::get(v); op_end(k, x); log_pop(me, x); }
        } catch (const vs::TestError &e) { op_drop(k); long n = dsim::cell_add(EXC_SEEN, 1); dsim::cell_set(EXC_CODES + (int)n, e.code); }
        catch (const cocls::await_canceled_exception &) { op_drop(k); dsim::cell_add(CANCELLED, 1); co_return; }
    }
}
template <typename T> void blocking_consumer(cocls::queue<T> &q, int me, int npops) {
    for (int i = 0; i < npops; i++) {
        int k = op_begin(1, 0);
        try {
            if constexpr (std::is_void_v<T>) { q.pop().wait(); dsim::cell_add(VOID_POPS, 1); op_drop(k); }
            else { auto f = q.pop(); long x = V<T>::get(f.wait()); op_end(k, x); log_pop(me, x); }
        } catch (const vs::TestError &e) { op_drop(k); long n = dsim::cell_add(EXC_SEEN, 1); dsim::cell_set(EXC_CODES + (int)n, e.code); }
        catch (const cocls::await_canceled_exception &) { op_drop(k); dsim::cell_add(CANCELLED, 1); break; }
    }
    dsim::cell_add(CONS_DONE, 1);
}

// callback-style consumer: a member function is called when the pop completes; it records the value and re-arms the next
// pop from inside the handler (and looks at the queue), the way an event-driven consumer does
template <typename T> struct CallbackConsumer {
    cocls::queue<T> &q; int me, left; cocls::promise<void> done; int cur_op = -1;
    cocls::suspend_point<void> on_item(cocls::future<T> &f) noexcept {
        try {
            if constexpr (std::is_void_v<T>) { f.value(); dsim::cell_add(VOID_POPS, 1); op_drop(cur_op); }
            else { long x = V<T>::get(f.value()); op_end(cur_op, x); log_pop(me, x); }
        } catch (const vs::TestError &e) { op_drop(cur_op); long n = dsim::cell_add(EXC_SEEN, 1); dsim::cell_set(EXC_CODES + (int)n, e.code); }
        catch (const cocls::await_canceled_exception &) { op_drop(cur_op); dsim::cell_add(CANCELLED, 1); left = 0; }
        (void)q.empty();
        if (left > 0 && --left > 0) arm(); else { left = 0; return done(); }
        return {};
    }
    cocls::call_fn_future_awaiter<&CallbackConsumer::on_item> awt{*this};
    void arm() { cur_op = op_begin(1, 0); awt << [this] { return q.pop(); }; }
    CallbackConsumer(cocls::queue<T> &q, int me, int n) : q(q), me(me), left(n) {}
};
struct QModel {
    std::deque<long> q;
    bool apply(const vs::LOp &o) {
        if (o.type == 0) { q.push_back(o.arg); return true; }
        if (o.type == 1) { if (q.empty() || q.front() != o.arg) return false; q.pop_front(); return true; }
        return true;
    }
};

template <typename T> void multi_thread() {
    constexpr bool is_void = std::is_void_v<T>;
    int np = 1 + dsim::choose(3), nc = 1 + dsim::choose(3);
    int pushes[3], ck[3], cp[3]; long total_push = 0;
    for (int i = 0; i < np; i++) { pushes[i] = 1 + dsim::choose(4); total_push += pushes[i]; }
    int n_block = 0;
    for (int i = 0; i < nc; i++) { ck[i] = dsim::choose(3); cp[i] = 1 + dsim::choose(4); if (ck[i] >= 1) n_block++; }
    int n_unblock = dsim::choose(3);
    dsim::plan_note("threads: producers=%d consumers=%d unblocks=%d", np, nc, n_unblock);
    for (int i = 0; i < np; i++) dsim::plan_note(" P%d:%d", i, pushes[i]);
    for (int i = 0; i < nc; i++) dsim::plan_note(" C%d:%s%d", i, ck[i] == 2 ? "cb" : ck[i] ? "blk" : "coro", cp[i]);
    {
        auto q = std::make_unique<cocls::queue<T>>();
        std::vector<std::thread> prod, cons;
        for (int i = 0; i < nc; i++) cons.emplace_back([&, i] {
            if (ck[i] == 0) {
                auto f = coro_consumer<T>(*q, i, cp[i]).start();
                dsim::cell_set(RETURNED + i, 1);       // the coroutine returned control: finished or parked (it continues on producer threads)
                f.wait();
            } else if (ck[i] == 2) {
                CallbackConsumer<T> cc(*q, i, cp[i]);
                cocls::future<void> fin; cc.done = fin.get_promise();
                cc.arm();
                fin.wait();
                dsim::cell_add(CONS_DONE, 1);
            } else blocking_consumer<T>(*q, i, cp[i]);
        });
        for (int i = 0; i < np; i++) prod.emplace_back([&, i] {
            for (int j = 0; j < pushes[i]; j++) {
                long v = (i + 1) * 1000 + j;
                int k = op_begin(0, v);
                if constexpr (is_void) q->push(); else do_push(*q, v);
                op_end(k, v);
            }
        });
        std::thread unb([&] {
            for (int j = 0; j < n_unblock; j++) {
                long code = 7000 + j;
                bool r = q->unblock_pop(vs::make_err(code));
                if (r) { long n = dsim::cell_add(UNBLOCK_TRUE, 1); dsim::cell_set(EXC_CODES + 100 + (int)n, code); }
                std::this_thread::yield();
            }
        });
        for (auto &t : prod) t.join();
        unb.join();
        // release blocking consumers that can no longer be served: fail their parked pops one by one
        while (dsim::cell_get(CONS_DONE) < n_block) {
            bool r = q->unblock_pop(vs::make_err(9999));
            if (r) { long n = dsim::cell_add(UNBLOCK_TRUE, 1); dsim::cell_set(EXC_CODES + 100 + (int)n, 9999); }
            else std::this_thread::yield();
        }
        for (int i = 0; i < nc; i++) if (ck[i] == 0) dsim::wait_cell(RETURNED + i);
        // quiescent: producers done, blocking consumers done, coroutine consumers finished or parked
        long popped = is_void ? dsim::cell_get(VOID_POPS) : dsim::cell_get(NPOPPED);
        long left = (long)q->size();
        if (popped + left != total_push) dsim::fail("C09.conservation", "%ld pushed, %ld popped, %ld still queued", total_push, popped, left);
        q.reset();          // destroys the queue with coroutine pops still parked: they end with await_canceled_exception
        for (auto &t : cons) t.join();
    }
    // ---- oracles over the history
    long npopped = dsim::cell_get(NPOPPED);
    std::vector<long> seen;
    long last[3][4]; for (auto &a : last) for (auto &b : a) b = -1;
    for (long k = 0; k < npopped; k++) {
        int c = (int)dsim::cell_get(POPPED + 2 * (int)k); long v = dsim::cell_get(POPPED + 2 * (int)k + 1);
        long p = v / 1000 - 1, seq = v % 1000;
        if (p < 0 || p >= np || seq >= pushes[p]) dsim::fail("C09.garbage", "consumer %d popped %ld which nobody pushed", c, v);
        for (long s : seen) if (s == v) dsim::fail("C09.duplicate", "value %ld delivered twice", v);
        seen.push_back(v);
        if (seq <= last[c][p]) dsim::fail("C09.order", "consumer %d received %ld after %ld of the same producer", c, v, (p + 1) * 1000 + last[c][p]);
        last[c][p] = seq;
    }
    // every successful unblock failed exactly one pop with exactly its exception
    long ut = dsim::cell_get(UNBLOCK_TRUE), es = dsim::cell_get(EXC_SEEN);
    if (ut != es) dsim::fail("C09.unblock", "%ld unblock_pop calls returned true but %ld pops ended with the exception", ut, es);
    std::vector<long> a, b;
    for (long i = 1; i <= ut; i++) a.push_back(dsim::cell_get(EXC_CODES + 100 + (int)i));
    for (long i = 1; i <= es; i++) b.push_back(dsim::cell_get(EXC_CODES + (int)i));
    std::sort(a.begin(), a.end()); std::sort(b.begin(), b.end());
    if (a != b) dsim::fail("C09.unblock", "exceptions seen by pops differ from the exceptions passed to successful unblock_pop calls");
    // linearizability of short histories (push / completed pop) against a FIFO
    if constexpr (!is_void) {
        long n = dsim::cell_get(NOPS);
        if (n <= 64) {
            std::vector<vs::LOp> ops;
            for (int k = 0; k < n; k++) { long ty = dsim::cell_get(OPS + 4 * k); if (ty < 0) continue; long ret = dsim::cell_get(OPS + 4 * k + 3); if (ty == 1 && ret == INT64_MAX) continue; ops.push_back({(int)ty, dsim::cell_get(OPS + 4 * k + 1), dsim::cell_get(OPS + 4 * k + 2), ret}); }
            if (ops.size() <= 14 && !vs::linearizable(ops, QModel{})) dsim::fail("C09.linearizability", "history of %zu operations has no linearization against a FIFO queue", ops.size());
        }
    }
    if constexpr (std::is_same_v<T, vs::Counted>) vs::Counted::expect_balanced("C09.instances");
}
} // namespace

void dsim_scenario() {
    int ty = dsim::choose(4), mode = dsim::choose(3);
    dsim::plan_note("T=%s ", ty == 0 ? "long" : ty == 1 ? "Counted" : ty == 2 ? "void" : "vector(emplace)");
    if (mode == 0) { if (ty == 0) single_thread<long>(); else if (ty == 1) single_thread<vs::Counted>(); else if (ty == 2) single_thread<void>(); else single_thread<Vec>(); }
    else { if (ty == 0) multi_thread<long>(); else if (ty == 1) multi_thread<vs::Counted>(); else if (ty == 2) multi_thread<void>(); else multi_thread<Vec>(); }
}
