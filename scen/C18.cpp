// C18 — callback adapters fire exactly once with the right outcome (DESIGN §7 C18)
#include "common.h"
#include <cocls/future.h>
#include <cocls/async.h>
#include <cocls/callback_awaiter.h>
#include <cocls/future_conv.h>
#include <cocls/coro_storage.h>
#include <cocls/alloca_storage.h>
#include <alloca.h>
#include <thread>
#include <vector>

const char *const dsim_property = "C18";
namespace {
enum { CALLS = 0 /* per op */, KIND = 10, VAL = 20, ST_ALLOC = 30, ST_FREE = 31, CONV_CALLS = 32, REGISTERED = 40 };
enum { O_VALUE = 0, O_EXC = 1, O_DROP = 2 };
enum { T_BEFORE = 0, T_LATER = 1, T_THREAD = 2 };
constexpr long SRC = 500;

struct CountingStorage {
    void *alloc(std::size_t sz) { dsim::cell_add(ST_ALLOC, 1); return ::operator new(sz); }
    static void dealloc(void *p, std::size_t) { dsim::cell_add(ST_FREE, 1); ::operator delete(p); }
};

// the awaited operation: a future whose promise is resolved before / after / concurrently with the registration
struct Source {
    cocls::promise<long> prom; int outcome, timing; long val; std::thread thr;
    void resolve_now(cocls::promise<long> &p) {
        switch (outcome) { case O_VALUE: p(val); break; case O_EXC: p(vs::make_err(val)); break; default: p(cocls::drop); break; }
    }
    cocls::future<long> work() {
        return [&](cocls::promise<long> p) {
            if (timing == T_BEFORE) resolve_now(p);
            else if (timing == T_LATER) prom = std::move(p);
            else thr = std::thread([this, q = std::move(p)]() mutable { resolve_now(q); });
        };
    }
    void finish() { if (timing == T_LATER) resolve_now(prom); if (thr.joinable()) thr.join(); }
};

void fired(int op, int kind, long val) {
    long n = dsim::cell_add(CALLS + op, 1);
    if (n != 1) dsim::fail("C18.fired_twice", "completion of operation %d ran %ld times", op, n);
    dsim::cell_set(KIND + op, kind); dsim::cell_set(VAL + op, val);
    dsim::event("fired", op, kind);
}
void expect(int op, int outcome, long val, const char *what) {
    if (dsim::cell_get(CALLS + op) != 1) dsim::fail("C18.not_fired", "%s: completion of operation %d ran %ld times", what, op, dsim::cell_get(CALLS + op));
    long k = dsim::cell_get(KIND + op), v = dsim::cell_get(VAL + op);
    if (k != outcome || (outcome != O_DROP && v != val)) dsim::fail("C18.wrong_outcome", "%s: completion of operation %d saw outcome %ld value %ld, the operation ended with outcome %d value %ld", what, op, k, v, outcome, val);
}
template <typename R> void classify(int op, R &&read) {
    try { long v = read(); fired(op, O_VALUE, v); }
    catch (const vs::TestError &e) { fired(op, O_EXC, e.code); }
    catch (const cocls::await_canceled_exception &) { fired(op, O_DROP, 0); }
}

// ---- converters
long free_conv(long &x) { dsim::cell_add(CONV_CALLS, 1); if (x == SRC + 13) throw vs::TestError(4444); return x * 2; }
struct Ctx;
long free_conv_ctx(long &x, Ctx *c);
struct Ctx {
    long add = 7;
    bool leave = false;       // the promise-taking converters return without resolving, moving or re-arming the promise: the outer future must end as a broken promise, not stay pending
    long member(long &x) { dsim::cell_add(CONV_CALLS, 1); if (x == SRC + 13) throw vs::TestError(4444); return x + add; }
    cocls::suspend_point<void> member_p(long &x, cocls::promise<long> &p) { dsim::cell_add(CONV_CALLS, 1); if (x == SRC + 13) throw vs::TestError(4444); if (leave) return {}; return p(x + 2 * add); }
    long from_void() { dsim::cell_add(CONV_CALLS, 1); return 99; }
    long seen = -1;                                                              // what the value-less converters were handed
    void member_void(long &x) { dsim::cell_add(CONV_CALLS, 1); if (x == SRC + 13) throw vs::TestError(4444); seen = x; }
    void from_void_void() { dsim::cell_add(CONV_CALLS, 1); seen = 98; }
    cocls::suspend_point<void> from_void_p(cocls::promise<long> &p) { dsim::cell_add(CONV_CALLS, 1); if (leave) return {}; return p(97L); }
    cocls::future_conv<&Ctx::member> c_member{this};
    cocls::future_conv<&Ctx::member_p> c_member_p{this};
    cocls::future_conv<&free_conv> c_free;
    cocls::future_conv<&free_conv_ctx> c_free_ctx{this};
    cocls::future_conv<&Ctx::from_void> c_from_void{this};
    cocls::future_conv<&Ctx::member_void> c_member_void{this};
    cocls::future_conv<&Ctx::from_void_void> c_from_void_void{this};
    cocls::future_conv<&Ctx::from_void_p> c_from_void_p{this};
};
long g_free_seen = -1;
void free_to_void(long &x) { dsim::cell_add(CONV_CALLS, 1); if (x == SRC + 13) throw vs::TestError(4444); g_free_seen = x; }
long free_conv_ctx(long &x, Ctx *c) { dsim::cell_add(CONV_CALLS, 1); if (x == SRC + 13) throw vs::TestError(4444); return x - c->add; }

struct Handler {
    int op = 0;
    cocls::suspend_point<void> done(cocls::future<long> &f) noexcept { classify(op, [&] { return f.value(); }); return {}; }
    cocls::call_fn_future_awaiter<&Handler::done> awt{*this};
};
}

void dsim_scenario() {
    int adapter = dsim::choose(20);
    int nops = 1 + dsim::choose(2);           // consecutive operations on a reused adapter / storage
    bool rival = dsim::flip();
    int outcome[2], timing[2]; long val[2];
    for (int i = 0; i < nops; i++) { outcome[i] = dsim::choose(3); timing[i] = dsim::choose(3); val[i] = SRC + (dsim::choose(6) == 5 ? 13 : i + 1); }
    bool leave_promise = dsim::choose(3) == 0;
    dsim::plan_note("adapter=%d ops=%d leave_promise=%d", adapter, nops, (int)leave_promise);
    for (int i = 0; i < nops; i++) dsim::plan_note(" [outcome%d timing%d val%ld]", outcome[i], timing[i], val[i]);
    {
        CountingStorage cstor; cocls::reusable_storage rstor; Ctx ctx; Handler handler; std::size_t stack_state = 0;
        ctx.leave = leave_promise;
        for (int i = 0; i < nops; i++) {
            Source src; src.outcome = outcome[i]; src.timing = timing[i]; src.val = val[i];
            int exp_outcome = outcome[i]; long exp_val = val[i];
            auto cb = [i](cocls::await_result<long> r) { classify(i, [&] { return *r; }); };
            switch (adapter) {
            case 0: cocls::callback_await<cocls::future<long>>(cb, [&] { return src.work(); }); src.finish(); break;
            case 1: cocls::callback_await_alloc<CountingStorage, cocls::future<long>>(cstor, cb, [&] { return src.work(); }); src.finish(); break;
            case 2: cocls::callback_await_alloc<cocls::reusable_storage, cocls::future<long>>(rstor, cb, [&] { return src.work(); }); src.finish(); break;
            case 3: {   // make_promise on the heap: callback receives the resolved future
                auto p = cocls::make_promise<long>([i](cocls::future<long> &f) { classify(i, [&] { return f.value(); }); });
                if (timing[i] == T_THREAD && outcome[i] == O_VALUE && rival) {
                    // two threads call the one promise at the same time (a promise may be shared like that): the completion runs once, with the accepted call's value
                    bool a_ok = false, b_ok = false;
                    src.thr = std::thread([&] { a_ok = p(val[i]); });
                    b_ok = p(val[i] + 5000);
                    src.thr.join();
                    if (a_ok == b_ok) dsim::fail("C18.wrong_outcome", "two concurrent calls of one promise: %d of them were accepted", (int)a_ok + (int)b_ok);
                    if (b_ok) exp_val = val[i] + 5000;
                    break;
                }
                if (timing[i] == T_THREAD && outcome[i] == O_VALUE && rival) {
                    // two threads call the one promise at the same time (a promise may be shared like that): the completion runs once, with the accepted call's value
                    bool a_ok = false, b_ok = false;
                    src.thr = std::thread([&] { a_ok = p(val[i]); });
                    b_ok = p(val[i] + 5000);
                    src.thr.join();
                    if (a_ok == b_ok) dsim::fail("C18.wrong_outcome", "two concurrent calls of one promise: %d of them were accepted", (int)a_ok + (int)b_ok);
                    if (b_ok) exp_val = val[i] + 5000;
                    break;
                }
                if (timing[i] == T_THREAD) { src.thr = std::thread([&src, q = std::move(p)]() mutable { src.resolve_now(q); }); } else src.resolve_now(p);
                if (src.thr.joinable()) src.thr.join();
                break; }
            case 4: {   // make_promise in a storage
                auto p = cocls::make_promise<long>([i](cocls::future<long> &f) { classify(i, [&] { return f.value(); }); }, cstor);
                if (timing[i] == T_THREAD && outcome[i] == O_VALUE && rival) {
                    // two threads call the one promise at the same time (a promise may be shared like that): the completion runs once, with the accepted call's value
                    bool a_ok = false, b_ok = false;
                    src.thr = std::thread([&] { a_ok = p(val[i]); });
                    b_ok = p(val[i] + 5000);
                    src.thr.join();
                    if (a_ok == b_ok) dsim::fail("C18.wrong_outcome", "two concurrent calls of one promise: %d of them were accepted", (int)a_ok + (int)b_ok);
                    if (b_ok) exp_val = val[i] + 5000;
                    break;
                }
                if (timing[i] == T_THREAD && outcome[i] == O_VALUE && rival) {
                    // two threads call the one promise at the same time (a promise may be shared like that): the completion runs once, with the accepted call's value
                    bool a_ok = false, b_ok = false;
                    src.thr = std::thread([&] { a_ok = p(val[i]); });
                    b_ok = p(val[i] + 5000);
                    src.thr.join();
                    if (a_ok == b_ok) dsim::fail("C18.wrong_outcome", "two concurrent calls of one promise: %d of them were accepted", (int)a_ok + (int)b_ok);
                    if (b_ok) exp_val = val[i] + 5000;
                    break;
                }
                if (timing[i] == T_THREAD) { src.thr = std::thread([&src, q = std::move(p)]() mutable { src.resolve_now(q); }); } else src.resolve_now(p);
                if (src.thr.joinable()) src.thr.join();
                break; }
            case 5: {   // discard: nobody observes the result; the helper must free itself exactly once
                cocls::discard([&] { return src.work(); }); src.finish();
                fired(i, exp_outcome, exp_outcome == O_DROP ? 0 : exp_val);      // nothing to observe: accounting only (heap monitors are the oracle)
                break; }
            case 6: case 7: case 8: case 9: {
                cocls::future<long> out;
                auto factory = [&] { return src.work(); };
                if (adapter == 6) out << [&] { return ctx.c_member << factory; };
                else if (adapter == 7) out << [&] { return ctx.c_member_p << factory; };
                else if (adapter == 8) out << [&] { return ctx.c_free << factory; };
                else out << [&] { return ctx.c_free_ctx << factory; };
                src.finish();
                out.sync();
                classify(i, [&] { return out.value(); });
                if (exp_outcome == O_VALUE) { if (exp_val == SRC + 13) { exp_outcome = O_EXC; exp_val = 4444; } else if (adapter == 7 && leave_promise) exp_outcome = O_DROP; else exp_val = adapter == 6 ? exp_val + 7 : adapter == 7 ? exp_val + 14 : adapter == 8 ? exp_val * 2 : exp_val - 7; }
                else if (exp_outcome == O_DROP) { /* broken promise of the source surfaces as await_canceled_exception */ }
                break; }
            case 15: {  // the two-step form: conv(std::move(promise)) << source
                cocls::future<long> out; auto op = out.get_promise();
                ctx.c_member(std::move(op)) << [&] { return src.work(); };
                src.finish(); out.sync();
                classify(i, [&] { return out.value(); });
                if (exp_outcome == O_VALUE) { if (exp_val == SRC + 13) { exp_outcome = O_EXC; exp_val = 4444; } else exp_val += 7; }
                break; }
            case 16: case 17: {   // converters without a result: the outer future<void> completes when the converter has seen the value
                cocls::future<void> out; ctx.seen = -1; g_free_seen = -1;
                cocls::future_conv<&free_to_void> c_free_void;
                if (adapter == 16) out << [&] { return ctx.c_member_void << [&] { return src.work(); }; };
                else out << [&] { return c_free_void << [&] { return src.work(); }; };
                src.finish(); out.sync();
                classify(i, [&] { out.value(); return adapter == 16 ? ctx.seen : g_free_seen; });
                if (exp_outcome == O_VALUE && exp_val == SRC + 13) { exp_outcome = O_EXC; exp_val = 4444; }
                break; }
            case 10: case 18: case 19: {  // converters from future<void>
                Source *s = &src;
                cocls::promise<void> vp; std::thread vthr;
                auto vsrc = [&]() -> cocls::future<void> {
                    return [&](cocls::promise<void> p) {
                        auto res = [s](cocls::promise<void> &q) { if (s->outcome == O_VALUE) q(); else if (s->outcome == O_EXC) q(vs::make_err(s->val)); else q(cocls::drop); };
                        if (s->timing == T_BEFORE) res(p); else if (s->timing == T_LATER) vp = std::move(p); else vthr = std::thread([res, q = std::move(p)]() mutable { res(q); });
                    }; };
                auto finish_v = [&] { if (vp) { if (outcome[i] == O_VALUE) vp(); else if (outcome[i] == O_EXC) vp(vs::make_err(val[i])); else vp(cocls::drop); } if (vthr.joinable()) vthr.join(); };
                if (adapter == 19) {       // void -> void
                    cocls::future<void> out; ctx.seen = -1;
                    out << [&] { return ctx.c_from_void_void << vsrc; };
                    finish_v(); out.sync();
                    classify(i, [&] { out.value(); return ctx.seen; });
                    if (exp_outcome == O_VALUE) exp_val = 98;
                } else {
                    cocls::future<long> out;
                    if (adapter == 10) out << [&] { return ctx.c_from_void << vsrc; }; else out << [&] { return ctx.c_from_void_p << vsrc; };
                    finish_v(); out.sync();
                    classify(i, [&] { return out.value(); });
                    if (exp_outcome == O_VALUE) { if (adapter == 18 && leave_promise) exp_outcome = O_DROP; else exp_val = adapter == 10 ? 99 : 97; }
                }
                break; }
            case 13: case 14: {   // callback_await on a future<void>: await_result<void> is read through get(), operator bool and operator!
                Source *s = &src;
                cocls::promise<void> vp; std::thread vthr;
                auto res = [s](cocls::promise<void> &q) { if (s->outcome == O_VALUE) q(); else if (s->outcome == O_EXC) q(vs::make_err(s->val)); else q(cocls::drop); };
                auto vwork = [&]() -> cocls::future<void> {
                    return [&](cocls::promise<void> p) {
                        if (s->timing == T_BEFORE) res(p); else if (s->timing == T_LATER) vp = std::move(p); else vthr = std::thread([res, q = std::move(p)]() mutable { res(q); });
                    }; };
                auto vcb = [i, v = val[i]](cocls::await_result<void> r) {
                    bool ok = static_cast<bool>(r);
                    if (ok == !r) dsim::fail("C18.wrong_outcome", "await_result<void>: operator bool and operator! agree (%d)", (int)ok);
                    classify(i, [&] { r.get(); if (!ok) dsim::fail("C18.wrong_outcome", "await_result<void>::get() returned although the result is not valid"); return v; });
                };
                if (adapter == 13) cocls::callback_await<cocls::future<void>>(vcb, vwork);
                else cocls::callback_await_alloc<CountingStorage, cocls::future<void>>(cstor, vcb, vwork);
                if (vp) res(vp);
                if (vthr.joinable()) vthr.join();
                break; }
            case 12: {  // callback_await_alloc on a stack block (the way scheduler::start uses it): the block outlives the operation
                cocls::stack_storage sstor(stack_state);
                std::size_t want = sstor; char *blk = (char *)alloca(want + 8); memset(blk, 0x5A, want + 8);
                sstor = (void *)blk;
                cocls::callback_await_alloc<cocls::stack_storage, cocls::future<long>>(sstor, cb, [&] { return src.work(); });
                src.finish();
                for (std::size_t b = want; b < want + 8; b++) if (blk[b] != 0x5A) dsim::fail("C18.storage_balance", "stack block of %zu bytes overrun", want);
                break; }
            default: {  // call_fn_future_awaiter
                handler.op = i;
                handler.awt << [&] { return src.work(); };
                src.finish();
                break; }
            }
            expect(i, exp_outcome, exp_val, (adapter >= 6 && adapter <= 10) || adapter >= 15 ? "future_conv" : "callback adapter");
        }
        if (dsim::cell_get(ST_ALLOC) != dsim::cell_get(ST_FREE)) dsim::fail("C18.storage_balance", "counting storage: %ld blocks handed out, %ld returned", dsim::cell_get(ST_ALLOC), dsim::cell_get(ST_FREE));
    }
}
