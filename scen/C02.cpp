// C02 — no lost, early or duplicate wake-up of a future's waiters (DESIGN §7 C02)
#include "common.h"
#include <cocls/future.h>
#include <cocls/async.h>
#include <cocls/callback_awaiter.h>
#include <optional>
#include <thread>
#include <vector>

const char *const dsim_property = "C02";
namespace {
enum { ABOUT = 0, RESOLVED = 1, EXPECT_KIND = 2, REL = 10, GATEP = 20, STARTED = 30 };
enum Kind { K_VALUE = 1, K_EXC = 2, K_NOVALUE = 3 };
constexpr long VAL = 4242, ERR = 77;
using Fut = cocls::future<vs::Counted>;

void released(Fut &f, int i, int kind, long val) {
    if (!dsim::cell_get(ABOUT)) dsim::fail("C02.early_wakeup", "waiter %d released before the resolver started to resolve", i);
    if (!f.ready()) dsim::fail("C02.early_wakeup", "waiter %d released but the future is not ready", i);
    long ek = dsim::cell_get(EXPECT_KIND);
    if (kind != ek) dsim::fail("C02.incomplete_result", "waiter %d observed kind %d, resolver supplied kind %ld", i, kind, ek);
    if (kind == K_VALUE && val != VAL) dsim::fail("C02.incomplete_result", "waiter %d read value %ld, expected %ld", i, val, VAL);
    if (kind == K_EXC && val != ERR) dsim::fail("C02.incomplete_result", "waiter %d got exception code %ld, expected %ld", i, val, ERR);
    long n = dsim::cell_add(REL + i, 1);
    if (n != 1) dsim::fail("C02.duplicate_wakeup", "waiter %d released %ld times", i, n);
    dsim::event("released", i, kind);
}
void observe_and_release(Fut &f, int i) {
    int kind; long val = 0;
    try { val = f.value().value(); kind = K_VALUE; }
    catch (const vs::TestError &e) { kind = K_EXC; val = e.code; }
    catch (const cocls::await_canceled_exception &) { kind = K_NOVALUE; }
    catch (const cocls::value_not_ready_exception &) { dsim::fail("C02.early_wakeup", "waiter %d released while the future still reports not ready", i); }
    released(f, i, kind, val);
}

cocls::async<void> coro_waiter(Fut &f, cocls::future<void> &gate, int i, int style) {
    dsim::cell_set(STARTED + i, 1);
    if (style == 0) {
        int kind; long val = 0;
        try { vs::Counted &r = co_await f; val = r.value(); kind = K_VALUE; }
        catch (const vs::TestError &e) { kind = K_EXC; val = e.code; }
        catch (const cocls::await_canceled_exception &) { kind = K_NOVALUE; }
        catch (const cocls::value_not_ready_exception &) { kind = 0; }
        if (!kind) dsim::fail("C02.early_wakeup", "coroutine waiter %d resumed while the future is still pending", i);
        released(f, i, kind, val);
    } else {
        bool hv = co_await f.has_value();
        observe_and_release(f, i);
        if (hv != (dsim::cell_get(EXPECT_KIND) != K_NOVALUE)) dsim::fail("C02.incomplete_result", "co_await has_value() gave %d", (int)hv);
    }
    // park on a second future: a duplicate resumption of this coroutine becomes observable here
    try { co_await gate; } catch (const cocls::value_not_ready_exception &) { dsim::fail("C02.duplicate_wakeup", "coroutine waiter %d resumed again while parked on an unrelated pending future", i); }
    if (!gate.ready()) dsim::fail("C02.duplicate_wakeup", "coroutine waiter %d resumed again while parked on an unrelated pending future", i);
    if (dsim::cell_add(GATEP + i, 1) != 1) dsim::fail("C02.duplicate_wakeup", "coroutine waiter %d passed its gate twice", i);
}

struct CustomAwt : cocls::awaiter {
    Fut *f = nullptr; int i = 0;
    CustomAwt() { set_resume_fn(&fire); }
    static cocls::suspend_point<void> fire(cocls::awaiter *me, void *) noexcept {
        auto *self = static_cast<CustomAwt *>(me);
        observe_and_release(*self->f, self->i);
        return {};
    }
};

cocls::async<vs::Counted> producer(cocls::future<void> &inner, int how) {
    co_await inner;
    if (how == 1) throw vs::TestError(ERR);
    co_return vs::Counted(VAL);
}

void deadlock_classifier() {
    if (dsim::cell_get(RESOLVED)) {
        for (int i = 0; i < 6; i++) if (dsim::cell_get(STARTED + i) && !dsim::cell_get(REL + i)) dsim::fail("C02.lost_wakeup", "future resolved but waiter %d was never released (everything is blocked)", i);
    }
}
}

void dsim_scenario() {
    dsim::on_deadlock(deadlock_classifier);
    int nw = 1 + dsim::choose(6);       // more than three ready coroutines make the carried suspend point grow from inline to heap storage
    int wk[6]; for (int i = 0; i < nw; i++) wk[i] = dsim::choose(8);
    int rk = dsim::choose(6);
    bool colocate = dsim::flip();
    bool reuse_custom = dsim::flip();
    dsim::plan_note("waiters=%d kinds=", nw); for (int i = 0; i < nw; i++) dsim::plan_note("%d", wk[i]);
    dsim::plan_note(" resolver=%d colocate=%d", rk, (int)colocate);
    {
        Fut f;
        cocls::future<void> gate; auto gate_p = gate.get_promise();
        cocls::future<void> inner; cocls::promise<void> inner_p;
        CustomAwt customs[6];
        struct FnCtx { Fut *f; int i; } fnctx[6];
        std::optional<cocls::co_awaiter<Fut>> fn_awts[6];      // co_awaiter used as a callback awaiter through await_suspend(resume_fn, ctx); lives until fired
        {
            cocls::promise<vs::Counted> p = f.get_promise();
            bool via_coro = rk >= 4;
            if (via_coro) {
                inner_p = inner.get_promise();
                auto co = producer(inner, rk - 4);
                if (!co.start(p)) dsim::fail("C02.harness", "start(promise) failed");
            }
            dsim::cell_set(EXPECT_KIND, rk == 0 ? K_VALUE : rk == 1 ? K_EXC : rk == 4 ? K_VALUE : rk == 5 ? K_EXC : K_NOVALUE);
            std::vector<std::thread> th;
            auto start_waiter = [&](int i) {
                switch (wk[i]) {
                case 0: case 1: break; // handled by caller (needs join)
                case 2: { dsim::cell_set(STARTED + i, 1); try { if (i & 1) (void)*f; else f.wait(); } catch (...) {} observe_and_release(f, i); break; }    // wait() or the dereference ("acts as wait()")
                case 3: {   // sync(), or the blocking form of has_value(): the awaitable bool converted in ordinary code waits for the resolution
                    dsim::cell_set(STARTED + i, 1);
                    if (i & 1) {
                        bool hv = i == 1 ? static_cast<bool>(f.has_value()) : i == 3 ? static_cast<bool>(f) : !!f;     // has_value(), operator bool, operator!
                        observe_and_release(f, i);
                        if (hv != (dsim::cell_get(EXPECT_KIND) != K_NOVALUE)) dsim::fail("C02.incomplete_result", "blocking has_value() gave %d", (int)hv);
                    } else { f.sync(); observe_and_release(f, i); }
                    break; }
                case 4: {
                    dsim::cell_set(STARTED + i, 1);
                    customs[i].f = &f; customs[i].i = i;
                    if (reuse_custom) {     // the same awaiter object was offered to another, already resolved future before (and refused)
                        cocls::future<long> done = cocls::future<long>::set_value(1L);
                        cocls::co_awaiter<cocls::future<long>> aw0(done);
                        if (aw0.subscribe(&customs[i])) dsim::fail("C02.harness", "resolved future accepted a subscription");
                    }
                    cocls::co_awaiter<Fut> aw(f);
                    if (!aw.subscribe(&customs[i])) observe_and_release(f, i);   // already resolved: not registered, caller proceeds itself
                    break; }
                case 6: {   // the force_ variants of the blocking waits (same wait, no "blocking inside a coroutine" assertion)
                    dsim::cell_set(STARTED + i, 1);
                    if (i & 1) { try { f.force_wait(); } catch (...) {} } else f.force_sync();
                    observe_and_release(f, i); break; }
                case 7: {   // register a plain function instead of a coroutine: co_awaiter::await_suspend(resume_fn, user_ctx)
                    dsim::cell_set(STARTED + i, 1);
                    fnctx[i] = FnCtx{&f, i};
                    fn_awts[i].emplace(f);
                    bool parked = fn_awts[i]->await_suspend([](cocls::awaiter *, void *ctx) noexcept -> cocls::suspend_point<void> {
                        auto *c = static_cast<FnCtx *>(ctx); observe_and_release(*c->f, c->i); return {}; }, &fnctx[i]);
                    if (!parked) observe_and_release(f, i);
                    break; }
                default: {
                    dsim::cell_set(STARTED + i, 1);
                    cocls::callback_await<Fut &>([&f, i](cocls::await_result<vs::Counted> r) {
                        int kind; long val = 0;
                        try { val = (*r).value(); kind = K_VALUE; }
                        catch (const vs::TestError &e) { kind = K_EXC; val = e.code; }
                        catch (const cocls::await_canceled_exception &) { kind = K_NOVALUE; }
                        released(f, i, kind, val);
                    }, f);
                    break; }
                }
            };
            if (colocate) {
                // non-blocking waiter kinds share one thread; blocking kinds get their own
                th.emplace_back([&] {
                    std::vector<cocls::future<void>*> pend; (void)pend;
                    cocls::future<void> futs[6]; bool used[6] = {false, false, false, false, false, false};
                    for (int i = 0; i < nw; i++) {
                        if (wk[i] <= 1) { futs[i] << [&] { return coro_waiter(f, gate, i, wk[i]).start(); }; used[i] = true; }
                        else if (wk[i] == 4 || wk[i] == 5 || wk[i] == 7) start_waiter(i);
                    }
                    for (int i = 0; i < nw; i++) if (used[i]) futs[i].wait();
                });
                for (int i = 0; i < nw; i++) if (wk[i] == 2 || wk[i] == 3 || wk[i] == 6) th.emplace_back([&, i] { start_waiter(i); });
            } else {
                for (int i = 0; i < nw; i++) th.emplace_back([&, i] {
                    if (wk[i] <= 1) coro_waiter(f, gate, i, wk[i]).join(); else start_waiter(i);
                });
            }
            std::thread res([&] {
                dsim::cell_set(ABOUT, 1);
                dsim::event("about_to_resolve", rk);
                switch (rk) {
                case 0: { bool ok = p(VAL); if (!ok) dsim::fail("C02.harness", "resolver lost"); break; }
                case 1: p(vs::make_err(ERR)); break;
                case 2: p(cocls::drop); break;
                case 3: { cocls::promise<vs::Counted> dying(std::move(p)); break; }
                default: inner_p(); break;
                }
                dsim::cell_set(RESOLVED, 1);
            });
            res.join();
            // every waiter that started must be released without further help (lost wake-up => deadlock here)
            for (int i = 0; i < nw; i++) dsim::wait_cell(REL + i, 1);
            gate_p();
            for (auto &t : th) t.join();
        }
        for (int i = 0; i < nw; i++) {
            if (dsim::cell_get(REL + i) != 1) dsim::fail("C02.duplicate_wakeup", "waiter %d released %ld times", i, dsim::cell_get(REL + i));
            if (wk[i] <= 1 && dsim::cell_get(GATEP + i) != 1) dsim::fail("C02.lost_wakeup", "coroutine waiter %d did not finish", i);
        }
    }
    vs::Counted::expect_balanced("C02.instances");
}
