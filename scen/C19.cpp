// C19 — coroutine storage policies give every frame exclusive, correctly freed memory (DESIGN §7 C19)
#include "common.h"
#include <cocls/async.h>
#include <cocls/future.h>
#include <cocls/coro_storage.h>
#include <cocls/alloca_storage.h>
#include <cocls/with_allocator.h>
#include <alloca.h>
#include <array>
#include <thread>
#include <vector>

const char *const dsim_property = "C19";
namespace {
enum { NLIVE = 0, FRAMES = 1, EXTRA_CTOR = 2, EXTRA_DTOR = 3, DONE = 4, LIVE = 100 /* 8 slots x (ptr,size,owner) */, RESULT = 200 };
constexpr int SLOTS = 8;

void live_add(void *p, std::size_t sz) {
    uintptr_t a = (uintptr_t)p;
    if (!p) dsim::fail("C19.null_block", "storage returned a null block for %zu bytes", sz);
    for (int i = 0; i < SLOTS; i++) {
        uintptr_t b = (uintptr_t)dsim::cell_get(LIVE + 3 * i); std::size_t bs = (std::size_t)dsim::cell_get(LIVE + 3 * i + 1);
        if (b && a < b + bs && b < a + sz) dsim::fail("C19.overlap", "frame of %zu bytes at %p overlaps the live frame of %zu bytes at %p", sz, p, bs, (void *)b);
    }
    for (int i = 0; i < SLOTS; i++) if (!dsim::cell_get(LIVE + 3 * i)) { dsim::cell_set(LIVE + 3 * i, (long)a); dsim::cell_set(LIVE + 3 * i + 1, (long)sz); dsim::cell_add(NLIVE, 1); dsim::cell_add(FRAMES, 1); return; }
    dsim::fail("C19.harness", "too many live frames");
}
void live_remove(void *p, std::size_t sz) {
    for (int i = 0; i < SLOTS; i++) if ((uintptr_t)dsim::cell_get(LIVE + 3 * i) == (uintptr_t)p) {
        if ((std::size_t)dsim::cell_get(LIVE + 3 * i + 1) != sz) dsim::fail("C19.size_mismatch", "frame at %p allocated with %ld bytes, returned with %zu", p, dsim::cell_get(LIVE + 3 * i + 1), sz);
        dsim::cell_set(LIVE + 3 * i, 0); dsim::cell_add(NLIVE, -1); return;
    }
    dsim::fail("C19.freed_twice", "block %p returned to the storage but it is not a live frame (returned twice?)", p);
}
template <typename Base> struct Tracked : Base {
    using Base::Base;
    using Base::operator=;
    void *alloc(std::size_t sz) { void *p = Base::alloc(sz); live_add(p, sz); return p; }
    static void dealloc(void *p, std::size_t sz) { live_remove(p, sz); Base::dealloc(p, sz); }
};
template <std::size_t N> struct Elem { char b[N]; };
template <typename B> struct BufTracked : Tracked<cocls::reusable_buffer_storage<B>> {   // the block is the user's buffer: it must be large enough for the frame
    using Tracked<cocls::reusable_buffer_storage<B>>::Tracked;
    B *buf = nullptr;
    void *alloc(std::size_t sz) {
        void *p = Tracked<cocls::reusable_buffer_storage<B>>::alloc(sz);
        std::size_t have = buf->size() * sizeof(typename B::value_type);
        if (p != (void *)buf->data()) dsim::fail("C19.foreign_block", "reusable_buffer_storage returned %p, the buffer is at %p", p, (void *)buf->data());
        if (have < sz) dsim::fail("C19.block_too_small", "reusable_buffer_storage: frame of %zu bytes was given a buffer of %zu elements x %zu bytes = %zu bytes", sz, buf->size(), sizeof(typename B::value_type), have);
        return p;
    }
};
struct Extra { long tag; Extra() : tag(0) { dsim::cell_add(EXTRA_CTOR, 1); } explicit Extra(long t) : tag(t) { dsim::cell_add(EXTRA_CTOR, 1); } Extra(const Extra &o) : tag(o.tag) { dsim::cell_add(EXTRA_CTOR, 1); } ~Extra() { dsim::cell_add(EXTRA_DTOR, 1); } };

// frames of different sizes: the padding array lives in the frame and carries canaries
template <typename S, std::size_t N> cocls::with_allocator<S, cocls::async<long>> frame(S &, std::array<long, N> pad, cocls::future<void> *gate, long tag) {
    for (std::size_t i = 0; i < N; i++) pad[i] = tag * 1000 + (long)i;
    if (gate) co_await *gate;
    long sum = 0;
    for (std::size_t i = 0; i < N; i++) { if (pad[i] != tag * 1000 + (long)i) dsim::fail("C19.frame_damaged", "frame %ld: word %zu changed while the coroutine was suspended", tag, i); sum += pad[i]; }
    co_return sum + (long)N;
}
template <typename S> cocls::async<long> make_frame(S &s, int size_class, cocls::future<void> *gate, long tag) {
    switch (size_class) { case 0: return frame<S, 1>(s, {}, gate, tag); case 1: return frame<S, 2>(s, {}, gate, tag); case 2: return frame<S, 8>(s, {}, gate, tag); default: return frame<S, 40>(s, {}, gate, tag); }
}
long expected(int size_class, long tag) { long n = size_class == 0 ? 1 : size_class == 1 ? 2 : size_class == 2 ? 8 : 40, s = 0; for (long i = 0; i < n; i++) s += tag * 1000 + i; return s + n; }

// one creation + completion on storage s; returns number of heap allocations it caused on this thread
template <typename S> unsigned long one_op(S &s, int size_class, bool suspend, long tag) {
    unsigned long a0 = dsim::thread_allocs();
    cocls::future<void> gate; cocls::promise<void> gp;
    if (suspend) gp = gate.get_promise();
    {
        cocls::future<long> f = make_frame(s, size_class, suspend ? &gate : nullptr, tag).start();
        if (suspend) { if (f.ready()) dsim::fail("C19.harness", "frame did not suspend"); gp(); }
        long r = f.wait();
        if (r != expected(size_class, tag)) dsim::fail("C19.frame_damaged", "frame %ld returned %ld, expected %ld", tag, r, expected(size_class, tag));
    }
    return dsim::thread_allocs() - a0;
}
struct Plan { int n; int size_class[6]; bool suspend[6]; };
Plan draw_plan() { Plan p; p.n = 2 + dsim::choose(4); for (int i = 0; i < p.n; i++) { p.size_class[i] = dsim::choose(4); p.suspend[i] = dsim::flip(); } return p; }
void note_plan(const Plan &p) { for (int i = 0; i < p.n; i++) dsim::plan_note(" %d%s", p.size_class[i], p.suspend[i] ? "s" : ""); }

// sequences on a reusing policy: after the largest size was seen once, no further heap allocation
template <typename S, typename Mk> void reuse_sequence(const char *name, Mk &&with_storage, bool expect_no_alloc_after_warmup) {
    Plan p = draw_plan(); dsim::plan_note("%s:", name); note_plan(p);
    int largest = -1;
    for (int i = 0; i < p.n; i++) {
        unsigned long allocs = with_storage([&](S &s) { return one_op(s, p.size_class[i], p.suspend[i], i + 1); });
        if (expect_no_alloc_after_warmup && p.size_class[i] <= largest && allocs) dsim::fail("C19.reuse", "%s: frame #%d of size class %d allocated %lu heap block(s) although a frame at least as large was served before", name, i, p.size_class[i], allocs);
        if (p.size_class[i] > largest) largest = p.size_class[i];
        if (dsim::cell_get(NLIVE)) dsim::fail("C19.not_returned", "%s: frame #%d finished but its block was not returned to the storage", name, i);
    }
}
}

void dsim_scenario() {
    int policy = dsim::choose(9);
    dsim::set_heap_fill(dsim::flip() ? 0xCD : 0x00);
    switch (policy) {
    case 0: { Tracked<cocls::default_storage> s; reuse_sequence<Tracked<cocls::default_storage>>("default", [&](auto fn) { return fn(s); }, false); break; }
    case 1: {   // between two frames the storage object itself may be moved (move construction + move assignment keep the block: still no new allocation)
        using S = Tracked<cocls::reusable_storage>; S s;
        reuse_sequence<S>("reusable", [&](auto fn) {
            int mv = dsim::choose(3);
            if (mv == 1) { S tmp(std::move(s)); if (s.capacity()) dsim::fail("C19.reuse", "moved-from reusable_storage still reports capacity %zu", s.capacity()); s = std::move(tmp); }
            else if (mv == 2) { S &self = s; s = std::move(self); }
            return fn(s); }, true);
        break; }
    case 2: { Tracked<cocls::reusable_storage_mtsafe> s; reuse_sequence<Tracked<cocls::reusable_storage_mtsafe>>("reusable_mtsafe(single thread)", [&](auto fn) { return fn(s); }, true); break; }
    case 3: {   // stack storage the way scheduler::start uses it: size learnt in a shared state, block from alloca, heap fall-back
        std::size_t state = 0; int fill = dsim::flip() ? 0xFF : 0x00;
        dsim::plan_note("stackfill=%02x ", fill);
        using S = Tracked<cocls::stack_storage>;
        auto with_stack = [&](std::size_t &st, auto fn) {
            S s(st);
            std::size_t want = s;
            char *buf = (char *)alloca(want + 16);
            memset(buf, fill, want + 16);
            s = (void *)buf;
            unsigned long r = fn(s);
            for (std::size_t i = want; i < want + 16; i++) if ((unsigned char)buf[i] != (unsigned char)fill) dsim::fail("C19.block_too_small", "stack storage: bytes behind the %zu byte block were overwritten (state was preset to %zu)", want, want);
            return r;
        };
        {   // the shared size state may be preinitialised by the user: learn the frame size, then try states around it
            int c0 = dsim::choose(4); int delta = (int)dsim::choose(6);     // -8, -1, 0, +1, +2, +8 relative to the frame size
            std::size_t learn = 0;
            with_stack(learn, [&](S &s) { return one_op(s, c0, false, 90); });
            static const int deltas[6] = {-8, -1, 0, 1, 2, 8};
            std::size_t preset = learn - 1 + deltas[delta];                   // learn == frame size + 1
            dsim::plan_note("preset=frame%+d ", deltas[delta]);
            with_stack(preset, [&](S &s) { return one_op(s, c0, dsim::flip(), 91); });
            if (dsim::cell_get(NLIVE)) dsim::fail("C19.not_returned", "stack storage: block not returned");
        }
        {   // one storage object (block sized for a small frame) serves a large frame - heap fall-back, the shared state grows - and then a
            // medium one that fits the NEW state but not the block it was given: it must go to the heap as well
            std::size_t st = 0; int c_small = dsim::choose(2);
            with_stack(st, [&](S &s) { return one_op(s, c_small, false, 80); });
            bool s1 = dsim::flip(), s2 = dsim::flip();
            with_stack(st, [&](S &s) { unsigned long a = one_op(s, 3, s1, 81); a += one_op(s, 2, s2, 82); return a; });
            if (dsim::cell_get(NLIVE)) dsim::fail("C19.not_returned", "stack storage: block not returned");
        }
        reuse_sequence<S>("stack", [&](auto fn) {
            S s(state);
            std::size_t want = s;
            char *buf = (char *)alloca(want + 16);
            memset(buf, fill, want + 16);
            s = (void *)buf;
            unsigned long r = fn(s);
            for (std::size_t i = want; i < want + 16; i++) if ((unsigned char)buf[i] != (unsigned char)fill) dsim::fail("C19.block_too_small", "stack storage: bytes behind the %zu byte block were overwritten", want);
            return r;
        }, true);
        break; }
    case 4: {
        alignas(16) char buf[1024]; memset(buf, 0xEE, sizeof buf);
        using S = Tracked<cocls::placement_alloc>; S s(buf);
        reuse_sequence<S>("placement", [&](auto fn) { return fn(s); }, true);
        break; }
    case 5: {   // user-supplied buffer of any element type: the block must hold the frame also when the element size does not divide the frame size
        int et = dsim::choose(5);
        auto with_buffer = [&](auto elem, const char *name) {
            using E = decltype(elem); using B = std::vector<E>;
            B buffer;
            if (dsim::flip()) buffer.resize(1 + dsim::choose(40));     // the user may hand in a buffer that already has some (too small or sufficient) size
            using S = BufTracked<B>; S s(buffer); s.buf = &buffer;
            reuse_sequence<S>(name, [&](auto fn) { unsigned long r = fn(s); return r; }, true);
        };
        switch (et) {
        case 0: with_buffer(long(0), "reusable_buffer<long>"); break;
        case 1: with_buffer(char(0), "reusable_buffer<char>"); break;
        case 2: with_buffer(Elem<12>{}, "reusable_buffer<12 bytes>"); break;
        case 3: with_buffer(Elem<24>{}, "reusable_buffer<24 bytes>"); break;
        default: with_buffer(Elem<3>{}, "reusable_buffer<3 bytes>"); break;
        }
        break; }
    case 6: case 7: {   // attached extra object
        Plan p = draw_plan(); dsim::plan_note("extra over %s:", policy == 6 ? "default" : "reusable"); note_plan(p);
        auto run = [&](auto &s) {
            for (int i = 0; i < p.n; i++) {
                cocls::future<void> gate; auto gp = gate.get_promise();
                {
                    auto co = make_frame(s, p.size_class[i], &gate, i + 1);
                    // usable as soon as the coroutine object exists
                    if (s->tag != 77) dsim::fail("C19.extra_object", "attached object not constructed by the factory when the coroutine object exists (tag %ld)", s->tag);
                    s->tag = 78;
                    if (dsim::cell_get(EXTRA_CTOR) - dsim::cell_get(EXTRA_DTOR) < 1) dsim::fail("C19.extra_object", "attached object not alive while its frame is");
                    cocls::future<long> f = co.start();
                    gp();
                    long r = f.wait();
                    if (r != expected(p.size_class[i], i + 1)) dsim::fail("C19.frame_damaged", "frame returned %ld", r);
                }
                if (dsim::cell_get(NLIVE)) dsim::fail("C19.not_returned", "frame finished but its block was not returned");
            }
        };
        long ctor0;
        if (policy == 6) { cocls::promise_extra_storage<Extra, Tracked<cocls::default_storage>> s([] { return Extra(77); }); ctor0 = 0; run(s); }
        else { cocls::promise_extra_storage<Extra, Tracked<cocls::reusable_storage>> s([] { return Extra(77); }); ctor0 = 0; run(s); }
        (void)ctor0;
        if (dsim::cell_get(EXTRA_CTOR) != dsim::cell_get(EXTRA_DTOR)) dsim::fail("C19.extra_object", "attached objects: %ld constructed, %ld destroyed", dsim::cell_get(EXTRA_CTOR), dsim::cell_get(EXTRA_DTOR));
        if (dsim::cell_get(EXTRA_CTOR) < p.n) dsim::fail("C19.extra_object", "%d frames but only %ld attached objects were constructed", p.n, dsim::cell_get(EXTRA_CTOR));
        break; }
    default: {  // two threads on one thread-safe reusable storage: exclusivity + ordered hand-over of the block (C03 engine)
        dsim::config().race_is_violation = true;
        int rounds[2] = {1 + (int)dsim::choose(3), 1 + (int)dsim::choose(3)};
        int sc[2][3]; bool su[2][3];
        for (int t = 0; t < 2; t++) for (int i = 0; i < rounds[t]; i++) { sc[t][i] = dsim::choose(4); su[t][i] = dsim::flip(); }
        dsim::plan_note("reusable_mtsafe two threads:"); for (int t = 0; t < 2; t++) { dsim::plan_note(" T%d", t); for (int i = 0; i < rounds[t]; i++) dsim::plan_note(":%d%s", sc[t][i], su[t][i] ? "s" : ""); }
        Tracked<cocls::reusable_storage_mtsafe> s;
        std::thread th[2];
        for (int t = 0; t < 2; t++) th[t] = std::thread([&s, t, n = rounds[t], &sc, &su] { for (int i = 0; i < n; i++) one_op(s, sc[t][i], su[t][i], 10 * (t + 1) + i); });
        for (auto &t : th) t.join();
        if (dsim::cell_get(NLIVE)) dsim::fail("C19.not_returned", "frames finished but %ld blocks were not returned", dsim::cell_get(NLIVE));
        break; }
    }
}
