// C20 — the core synchronisation primitives never allocate (DESIGN §7 C20)
// Every thread measures its own region with thread_allocs_excluding(): heap allocations made by the calling thread whose
// shadow call stack does not pass through the thread-local ready queue's std::deque (scen/C20.excl_regex; the statement
// lists no ready-queue guarantee). Coroutine frames are either on non-heap storage (expect 0) or on the heap (expect = frames).
#include "common.h"
#include <cocls/future.h>
#include <cocls/async.h>
#include <cocls/mutex.h>
#include <cocls/generator.h>
#include <cocls/coro_storage.h>
#include <thread>
#include <vector>

const char *const dsim_property = "C20";
namespace {
enum { OBS = 0, GO = 1, DEQUE_ALLOCS = 2, RESOLVED = 3 };
struct Payload { long a, b, c; };     // allocation-free value type
using Slot = std::array<char, 512>;

struct Region {
    unsigned long a0, all0; const char *what;
    explicit Region(const char *w) : a0(dsim::thread_allocs_excluding()), all0(dsim::thread_allocs()), what(w) {}
    void expect(unsigned long frames) {
        unsigned long d = dsim::thread_allocs_excluding() - a0, all = dsim::thread_allocs() - all0;
        dsim::cell_add(DEQUE_ALLOCS, (long)(all - d));
        if (d != frames) dsim::fail("C20.allocated", "%s: %lu heap allocation(s) in the measured region, expected exactly %lu (the coroutine frames created there)", what, d, frames);
    }
    // a program without any coroutine never makes a coroutine ready: there the ready queue has no business either, so every allocation counts
    void expect_none_at_all() {
        unsigned long all = dsim::thread_allocs() - all0;
        if (all) dsim::fail("C20.allocated", "%s: %lu heap allocation(s) in a program that contains no coroutine at all", what, all);
    }
};

// coroutine waiters: frame in a caller-provided slot (placement) or on the heap
cocls::with_allocator<cocls::placement_alloc, cocls::async<void>> waiter_placed(cocls::placement_alloc &, cocls::future<Payload> &f, int kind) {
    if (kind == 0) { try { Payload &p = co_await f; if (p.b != p.a * 2 || p.c != p.a * 3) dsim::fail("C20.payload", "torn payload"); } catch (const cocls::await_canceled_exception &) {} }
    else { (void)co_await f.has_value(); }
    dsim::cell_add(OBS, 1);
}
cocls::async<void> waiter_heap(cocls::future<Payload> &f, int kind) {
    if (kind == 0) { try { Payload &p = co_await f; if (p.b != p.a * 2 || p.c != p.a * 3) dsim::fail("C20.payload", "torn payload"); } catch (const cocls::await_canceled_exception &) {} }
    else { (void)co_await f.has_value(); }
    dsim::cell_add(OBS, 1);
}
struct CbAwt : cocls::awaiter {
    CbAwt() { set_resume_fn([](cocls::awaiter *, void *) noexcept -> cocls::suspend_point<void> { dsim::cell_add(OBS, 1); return {}; }); }
};

void family_future() {
    int nw = 1 + dsim::choose(6);             // any number of waiters, but at most three of them coroutines: those are what the suspend point carries inline
    int wk[6]; bool heap[6]; int ncoro = 0;
    for (int i = 0; i < nw; i++) { wk[i] = dsim::choose(5); heap[i] = dsim::flip(); if (wk[i] <= 1 && ++ncoro > 3) wk[i] = 2 + dsim::choose(3); }
    int rk = dsim::choose(3); bool threads = dsim::flip();
    bool hold_sp = dsim::flip();             // the resolver keeps the returned suspend point and flushes it with clear() ("resume at a chosen place")
    int ncoro_final = 0; for (int i = 0; i < nw; i++) if (wk[i] <= 1) ncoro_final++;
    dsim::plan_note("future: hold_sp=%d waiters=%d", (int)hold_sp, nw); for (int i = 0; i < nw; i++) dsim::plan_note(" %d%s", wk[i], heap[i] ? "h" : "p");
    dsim::plan_note(" resolver=%d threads=%d", rk, (int)threads);
    alignas(16) static Slot slots[6]; CbAwt cbs[6];
    auto resolve = [rk, hold_sp, ncoro_final](cocls::promise<Payload> &p) {
        Region r("resolving a promise");
        if (hold_sp && rk != 2) { auto sp = rk == 0 ? p(Payload{7, 14, 21}) : p(cocls::drop); cocls::suspend_point<void> all; all << std::move(sp); all.clear(); if (!all.empty()) dsim::fail("C20.payload", "clear() left the suspend point non-empty"); }
        else if (rk == 0) p(Payload{7, 14, 21}); else if (rk == 1) p(cocls::drop); else { cocls::promise<Payload> q(std::move(p)); }
        r.expect(0);
        if (ncoro_final == 0) r.expect_none_at_all();
        dsim::cell_set(RESOLVED, 1);
    };
    auto wait = [&](cocls::future<Payload> &f, int i) {
        Region r("awaiting a future");
        unsigned long frames = 0;
        switch (wk[i]) {
        case 0: case 1:
            if (heap[i]) { frames = 1; waiter_heap(f, wk[i]).detach(); }
            else { cocls::placement_alloc pa(&slots[i]); waiter_placed(pa, f, wk[i]).detach(); }
            break;
        case 2: f.sync(); dsim::cell_add(OBS, 1); break;
        case 3: { bool hv = f.has_value(); (void)hv; dsim::cell_add(OBS, 1); break; }
        default: { cocls::co_awaiter<cocls::future<Payload>> aw(f); if (!aw.subscribe(&cbs[i])) dsim::cell_add(OBS, 1); break; }
        }
        r.expect(frames);
    };
    {
        Region whole("creating and destroying a future/promise pair");
        {
            cocls::future<Payload> f; auto p = f.get_promise();
            whole.expect(0);
            if (threads) {
                std::vector<std::thread> th;
                for (int i = 0; i < nw; i++) th.emplace_back([&, i] { wait(f, i); });
                th.emplace_back([&] { resolve(p); });
                for (auto &t : th) t.join();
            } else {
                bool blocking = false; for (int i = 0; i < nw; i++) if (wk[i] == 2 || wk[i] == 3) blocking = true;
                if (blocking) { Region r2("resolve"); resolve(p); }            // a blocking waiter on the same thread needs the result first
                for (int i = 0; i < nw; i++) wait(f, i);
                if (!blocking) resolve(p);
            }
            dsim::wait_cell(OBS, nw);
        }
    }
}

// ------------------------------------------------------------------ suspend points carrying up to three ready coroutines
// The waiters' frames are placed (non-heap); the party that resolves is ordinary code, a coroutine under a ready queue, or a
// generator body stepped from ordinary code (a coroutine that runs with NO ready queue installed on its thread).
cocls::with_allocator<cocls::placement_alloc, cocls::async<void>> sp_resolver(cocls::placement_alloc &, cocls::promise<Payload> &p, int how) {
    if (how == 0) co_await p(Payload{7, 14, 21});                 // awaited: transfer into one carried coroutine, the rest and this one are queued
    else if (how == 1) p(Payload{7, 14, 21});                     // discarded inside a coroutine: all carried coroutines are queued
    else { auto sp = p(Payload{7, 14, 21}); co_await cocls::pause(); co_await sp; }
    dsim::cell_add(OBS, 1);
}
cocls::generator<int> sp_resolver_gen(cocls::promise<Payload> &p, int how) {
    if (how == 0) co_await p(Payload{7, 14, 21}); else p(Payload{7, 14, 21});
    dsim::cell_add(OBS, 1);
    co_yield 1;
}
void family_suspend_point() {
    int k = 1 + dsim::choose(3);                  // ready coroutines carried by the suspend point: up to three
    int ctx = dsim::choose(4), how = dsim::choose(3);
    int k2 = ctx == 1 ? (int)dsim::choose(4 - k) : 0;    // merging two suspend points: still at most three handles together
    dsim::plan_note("suspend point: carried=%d+%d ctx=%d how=%d", k, k2, ctx, how);
    alignas(16) static Slot slots[6]; alignas(16) static Slot rslot;
    cocls::future<Payload> f1, f2; auto p1 = f1.get_promise(); auto p2 = f2.get_promise();
    {
        Region r("awaiting a future (placed frames)");
        for (int i = 0; i < k; i++) { cocls::placement_alloc pa(&slots[i]); waiter_placed(pa, f1, i & 1).detach(); }
        for (int i = 0; i < k2; i++) { cocls::placement_alloc pa(&slots[3 + i]); waiter_placed(pa, f2, i & 1).detach(); }
        r.expect(0);
    }
    long want = k + k2;
    switch (ctx) {
    case 0: { Region r("resolving from ordinary code, the suspend point (up to three ready coroutines) is discarded"); p1(Payload{7, 14, 21}); r.expect(0); break; }
    case 1: {
        Region r("holding, moving and merging suspend points that carry up to three ready coroutines together");
        cocls::suspend_point<void> a = p1(Payload{7, 14, 21});
        cocls::suspend_point<void> b = p2(Payload{7, 14, 21});
        if (a.size() != (std::size_t)k || b.size() != (std::size_t)k2) dsim::fail("C20.payload", "suspend points carry %zu and %zu coroutines, expected %d and %d", a.size(), b.size(), k, k2);
        cocls::suspend_point<void> c(std::move(a));
        if (how == 0) c << std::move(b); else if (how == 1) { b << std::move(c); c = std::move(b); } else { cocls::suspend_point<void> d; d = std::move(b); c << std::move(d); }
        if (c.size() != (std::size_t)(k + k2)) dsim::fail("C20.payload", "merged suspend point carries %zu coroutines, expected %d", c.size(), k + k2);
        c.clear();
        r.expect(0); break; }
    case 2: {
        cocls::placement_alloc pa(&rslot);
        Region r("resolving inside a coroutine that runs under a ready queue (suspend point awaited / discarded / held over a pause)");
        sp_resolver(pa, p1, how).join();
        r.expect(0); want++; break; }
    default: {
        Region c("creating a generator");
        auto g = sp_resolver_gen(p1, how & 1);
        c.expect(1);
        Region r("resolving inside a generator body stepped from ordinary code: the coroutine awaits / discards the suspend point with no ready queue installed");
        bool more = g.next();
        r.expect(0);
        if (!more || g.value() != 1) dsim::fail("C20.payload", "generator did not reach its yield");
        want++; break; }
    }
    if (ctx != 1 && k2 == 0) { Region r("dropping an unused promise"); { auto q = std::move(p2); } r.expect(0); }
    if (dsim::cell_get(OBS) != want) dsim::fail("C20.payload", "%ld of %ld parties finished", dsim::cell_get(OBS), want);
}

// ------------------------------------------------------------------ mutex
cocls::with_allocator<cocls::placement_alloc, cocls::async<void>> mx_placed(cocls::placement_alloc &, cocls::mutex &mx, int rounds, int rel) {
    for (int r = 0; r < rounds; r++) { auto own = co_await mx.lock(); dsim::yield(); if (rel == 0) own.release(); else if (rel == 1) co_await own.release(); }
}
cocls::async<void> mx_heap(cocls::mutex &mx, int rounds, int rel) {
    for (int r = 0; r < rounds; r++) { auto own = co_await mx.lock(); dsim::yield(); if (rel == 0) own.release(); else if (rel == 1) co_await own.release(); }
}
void family_mutex() {
    int n = 2 + dsim::choose(2);
    int kind[3], rounds[3], rel[3]; bool heap[3];
    for (int i = 0; i < n; i++) { kind[i] = dsim::choose(3); rounds[i] = 1 + dsim::choose(3); rel[i] = dsim::choose(3); heap[i] = dsim::flip(); }
    dsim::plan_note("mutex: n=%d", n); for (int i = 0; i < n; i++) dsim::plan_note(" [k%d r%d rel%d %s]", kind[i], rounds[i], rel[i], heap[i] ? "heap" : "placed");
    cocls::mutex mx;
    alignas(16) static Slot slots[3], jslots[3];
    std::vector<std::thread> th;
    for (int i = 0; i < n; i++) th.emplace_back([&, i] {
        Region r("locking, contending on and handing over the coroutine mutex");
        unsigned long frames = 0;
        if (kind[i] == 0) {
            // join() itself creates no frame: it waits on a future on this thread's stack
            if (heap[i]) { frames = 1; mx_heap(mx, rounds[i], rel[i]).join(); }
            else { cocls::placement_alloc pa(&slots[i]); mx_placed(pa, mx, rounds[i], rel[i]).join(); }
        } else if (kind[i] == 1) for (int k = 0; k < rounds[i]; k++) { cocls::mutex::ownership o(mx.lock()); dsim::yield(); }
        else for (int k = 0; k < rounds[i];) { auto o = mx.try_lock(); if (o) { k++; dsim::yield(); } else std::this_thread::yield(); }
        r.expect(frames);
    });
    for (auto &t : th) t.join();
    (void)jslots;
}

// ------------------------------------------------------------------ synchronous generator
cocls::generator<long> counter(long from, long n) { for (long i = 0; i < n; i++) co_yield from + i; }
void family_generator() {
    long n = 1 + dsim::choose(6); int style = dsim::choose(3);
    dsim::plan_note("generator: n=%ld style=%d", n, style);
    Region whole("creating a generator");
    auto g = counter(10, n);
    whole.expect(1);                      // its frame
    Region step("stepping a synchronous generator");
    long seen = 0;
    if (style == 0) { while (g.next()) { if (g.value() != 10 + seen) dsim::fail("C20.payload", "generator value"); seen++; } }
    else if (style == 1) { for (long v : g) { if (v != 10 + seen) dsim::fail("C20.payload", "generator value"); seen++; } }
    else { for (;;) { auto f = g(); if (!f.has_value()) break; if (f.value() != 10 + seen) dsim::fail("C20.payload", "generator value"); seen++; } }
    if (seen != n) dsim::fail("C20.payload", "generator produced %ld of %ld values", seen, n);
    step.expect(0);
}
}

void dsim_scenario() {
    switch (dsim::choose(4)) {
    case 0: family_future(); break;
    case 1: family_mutex(); break;
    case 3: family_suspend_point(); break;
    default: family_generator(); break;
    }
}
