// C12 — scheduler: never early, in deadline order, cancel hits exactly its target (DESIGN §7 C12)
#include "common.h"
#include <cocls/scheduler.h>
#include <cocls/thread_pool.h>
#include <cocls/future.h>
#include <cocls/async.h>
#include <chrono>
#include <memory>
#include <thread>
#include <vector>

const char *const dsim_property = "C12";
namespace {
using clk = std::chrono::system_clock;
using ms = std::chrono::milliseconds;
char id_tags[8];
const void *ident(int k) { return k == 0 ? nullptr : (const void *)&id_tags[k]; }
long to_ns(clk::time_point tp) { return std::chrono::duration_cast<std::chrono::nanoseconds>(tp.time_since_epoch()).count(); }
// a system_clock time point expressed on the simulator's virtual time axis (ns since run start)
long virt(clk::time_point tp) { return to_ns(tp) - (to_ns(clk::now()) - dsim::now_ns()); }

// ============================================================ (a) manual mode against a reference multiset model
void manual_mode() {
    struct Item { std::unique_ptr<cocls::future<void>> f; long tp; int id; bool pending = true; int kind = 0; long code = 0; };
    std::vector<Item> items;
    auto sch = std::make_unique<cocls::scheduler>();
    clk::time_point base = clk::now();
    long now_ms = 20;
    int nops = 2 + dsim::choose(14);
    dsim::plan_note("manual ops:");
    auto outcome = [](cocls::future<void> &f, int &kind, long &code) {
        code = 0;
        try { f.value(); kind = 1; } catch (const vs::TestError &e) { kind = 2; code = e.code; } catch (const cocls::await_canceled_exception &) { kind = 3; }
    };
    auto verify = [&](const char *after) {
        for (size_t i = 0; i < items.size(); i++) {
            Item &it = items[i]; bool rdy = it.f->ready();
            if (rdy == it.pending) dsim::fail("C12.manual_model", "after %s: sleep #%zu (id %d, +%ldms) is %s, the model says %s", after, i, it.id, it.tp, rdy ? "complete" : "pending", it.pending ? "pending" : "complete");
            if (!rdy) continue;
            int k; long c; outcome(*it.f, k, c);
            if (k != it.kind || c != it.code) dsim::fail("C12.manual_model", "after %s: sleep #%zu completed with kind %d code %ld, model kind %d code %ld", after, i, k, c, it.kind, it.code);
        }
    };
    // which item did an operation complete? (exactly one newly ready item expected)
    auto newly_ready = [&](const char *what) -> int {
        int found = -1;
        for (size_t i = 0; i < items.size(); i++) if (items[i].pending && items[i].f->ready()) { if (found >= 0) dsim::fail("C12.manual_model", "%s completed more than one sleep", what); found = (int)i; }
        return found;
    };
    auto min_pending = [&]() -> long { long m = -1; for (auto &it : items) if (it.pending && (m < 0 || it.tp < m)) m = it.tp; return m; };
    auto has_id = [&](int id) { for (auto &it : items) if (it.pending && it.id == id) return true; return false; };
    for (int s = 0; s < nops; s++) {
        int op = dsim::choose(6);
        if (op == 0 || op == 5) {
            long tp = 10 * (long)dsim::choose(7); int id = dsim::choose(4);
            items.emplace_back(); Item &it = items.back(); it.tp = tp; it.id = id;
            it.f = std::make_unique<cocls::future<void>>();
            sch->schedule(ident(id), it.f->get_promise(), base + ms(tp));
            dsim::plan_note(" sched(id%d,+%ld)", id, tp); verify("schedule");
        } else if (op == 1) {
            now_ms += 10 * (long)dsim::choose(4);
            auto r = sch->get_expired(base + ms(now_ms));
            long mp = min_pending();
            if (std::holds_alternative<cocls::scheduler::promise>(r)) {
                auto &p = std::get<cocls::scheduler::promise>(r);
                if (!p) dsim::fail("C12.manual_model", "get_expired returned an empty promise");
                p();
                int i = newly_ready("get_expired");
                if (i < 0) dsim::fail("C12.manual_model", "get_expired returned a promise that belongs to no pending sleep");
                if (items[i].tp > now_ms) dsim::fail("C12.early", "get_expired(now=+%ldms) handed out a sleep due at +%ldms", now_ms, items[i].tp);
                if (items[i].tp != mp) dsim::fail("C12.order", "get_expired handed out the sleep due at +%ldms while one due at +%ldms is pending", items[i].tp, mp);
                items[i].pending = false; items[i].kind = 1;
            } else {
                auto tp = std::get<clk::time_point>(r);
                if (mp >= 0 && mp <= now_ms) dsim::fail("C12.late", "get_expired(now=+%ldms) reports nothing expired although a sleep due at +%ldms is pending", now_ms, mp);
                if (mp < 0) { if (tp != clk::time_point::max()) dsim::fail("C12.manual_model", "get_expired on an empty scheduler does not return time_point::max()"); }
                else if (tp != base + ms(mp)) dsim::fail("C12.manual_model", "get_expired reports next event at %ldns, the earliest pending sleep is due at %ldns", to_ns(tp), to_ns(base + ms(mp)));
            }
            dsim::plan_note(" expired(+%ld)", now_ms); verify("get_expired");
        } else if (op == 2) {
            int id = 1 + dsim::choose(3);
            bool expect = has_id(id);
            auto p = sch->remove(ident(id));
            if ((bool)p != expect) dsim::fail(expect ? "C12.remove_missed_pending" : "C12.manual_model", "remove(id%d) returned %s promise, the model %s a pending sleep with that id", id, p ? "a" : "an empty", expect ? "has" : "has not");
            if (p) { p(); int i = newly_ready("remove"); if (i < 0 || items[i].id != id) dsim::fail("C12.cancel_wrong_target", "remove(id%d) returned the promise of a sleep with another id", id); items[i].pending = false; items[i].kind = 1; }
            dsim::plan_note(" remove(id%d)", id); verify("remove");
        } else {
            int id = 1 + dsim::choose(3);
            bool expect = has_id(id);
            bool custom = op == 4; long code = 900 + s;
            bool r = custom ? (bool)sch->cancel(ident(id), vs::make_err(code)) : (bool)sch->cancel(ident(id));
            if (r != expect) dsim::fail(expect ? "C12.cancel_missed_pending" : "C12.manual_model", "cancel(id%d) returned %d, the model %s a pending sleep with that id", id, (int)r, expect ? "has" : "has not");
            if (r) {
                int i = newly_ready("cancel"); if (i < 0) dsim::fail("C12.cancel_wrong_target", "cancel(id%d) returned true but completed nothing", id);
                if (items[i].id != id) dsim::fail("C12.cancel_wrong_target", "cancel(id%d) completed a sleep with id %d", id, items[i].id);
                items[i].pending = false; items[i].kind = custom ? 2 : 3; items[i].code = custom ? code : 0;
            } else if (newly_ready("cancel") >= 0) dsim::fail("C12.cancel_wrong_target", "cancel(id%d) returned false but completed a sleep", id);
            dsim::plan_note(" cancel(id%d)", id); verify("cancel");
        }
    }
    sch.reset();
    for (auto &it : items) if (it.pending) { it.pending = false; it.kind = 3; }
    verify("scheduler destruction");
}

// ============================================================ (b) single-thread start(awaitable) under virtual time
enum { NDONE = 0, SEQ = 1, ISSUED_N = 2, CANCEL_TRUE = 3, EXC_N = 4, STARTED = 10, PENDING = 100, TP = 200, DONE_AT = 300, OUTCOME = 400, T_CALL = 500, ISSUED = 600, CANCEL_HIT = 700 };
bool exact_time() { return !(dsim::config().stalls && dsim::faults_enabled()); }

void sleeper_woke(int i, int kind) {
    long now = dsim::now_ns(), tp = dsim::cell_get(TP + i), t_call = dsim::cell_get(T_CALL + i);
    if (dsim::cell_get(OUTCOME + i)) dsim::fail("C12.twice", "sleep %d completed twice", i);
    dsim::cell_set(OUTCOME + i, kind); dsim::cell_set(DONE_AT + i, now); dsim::cell_set(PENDING + i, 0);
    dsim::event("woke", i, kind);
    if (kind == 1) {
        if (now < tp) dsim::fail("C12.early", "sleep %d completed at +%ldns, before its time point +%ldns", i, now, tp);
        long expect = tp > t_call ? tp : t_call;
        if (exact_time() && now != expect) dsim::fail("C12.late", "idle scheduler woke sleep %d at +%ldns, its time point is +%ldns (called at +%ldns)", i, now, tp, t_call);
    }
}
// single-thread mode: the scheduler outlives every sleeper, so a sleep may only end with an exception when a cancel() hit it
void not_cancelled_by_nobody(int i) { if (!dsim::cell_get(CANCEL_HIT + i)) dsim::fail("C12.cancel_wrong_target", "sleep %d ended with an exception although no cancel() was aimed at it and the scheduler is alive", i); }
cocls::async<void> st_sleeper(cocls::scheduler &sch, int i, long delay_ms, int idk, clk::time_point base) {
    long tp = virt(base + ms(delay_ms));
    dsim::cell_set(TP + i, tp); dsim::cell_set(T_CALL + i, dsim::now_ns()); dsim::cell_set(PENDING + i, 1);
    try {
        co_await sch.sleep_until(base + ms(delay_ms), ident(idk));
        // strictly earlier deadlines that are still pending would violate the order
        for (int j = 0; j < 8; j++) if (j != i && dsim::cell_get(PENDING + j) && dsim::cell_get(TP + j) < tp && dsim::cell_get(T_CALL + j) <= dsim::cell_get(T_CALL + i))
            dsim::fail("C12.order", "sleep %d (+%ldns) completed while sleep %d (+%ldns) is still pending", i, tp, j, dsim::cell_get(TP + j));
        sleeper_woke(i, 1);
    } catch (const cocls::await_canceled_exception &) { sleeper_woke(i, 3); not_cancelled_by_nobody(i); }
    catch (const vs::TestError &e) { sleeper_woke(i, 2); dsim::cell_set(EXC_N, e.code); not_cancelled_by_nobody(i); }
}
cocls::async<void> st_canceller(cocls::scheduler &sch, long delay_ms, int idk, int target, bool custom, clk::time_point base) {
    co_await sch.sleep_until(base + ms(delay_ms));
    bool expect = target >= 0 && dsim::cell_get(PENDING + target);
    if (expect) dsim::cell_set(CANCEL_HIT + target, 1);
    bool r = custom ? (bool)sch.cancel(ident(idk), vs::make_err(4000 + idk)) : (bool)sch.cancel(ident(idk));
    if (r != expect) dsim::fail(expect ? "C12.cancel_missed_pending" : "C12.cancel_wrong_target", "cancel(id%d) at +%ldms returned %d but the sleep carrying that id is %s", idk, delay_ms, (int)r, expect ? "pending" : "not pending");
    if (r) dsim::cell_add(CANCEL_TRUE, 1);
    // a second cancel of the same id finds nothing
    bool r2 = sch.cancel(ident(idk));
    if (r2) dsim::fail("C12.cancel_wrong_target", "repeated cancel(id%d) returned true", idk);
}
cocls::async<void> st_interval_user(cocls::scheduler &sch, int ticks, long period_ms) {
    std::stop_source src;
    auto gen = sch.interval(ms(period_ms), src.get_token());
    long last = dsim::now_ns();
    for (int k = 0; k < ticks; k++) {
        bool ok = co_await gen.next();
        if (!ok) dsim::fail("C12.interval", "interval generator ended early");
        long now = dsim::now_ns();
        if (now - last < period_ms * 1000000L) dsim::fail("C12.early", "interval tick after %ldns, period is %ldms", now - last, period_ms);
        last = now;
    }
    src.request_stop();           // must not crash or hang (generator parked at co_yield)
}
// everything the first root starts lives here: start() may return while some of it is still pending
struct StWorld { cocls::future<void> f[8], cf[4], ivf; };
// first activation of start(): starts every party, awaits only the first nroot sleepers
cocls::async<void> st_root(cocls::scheduler &sch, StWorld &w, int n, const long *delay, const int *idk, int ncanc, const long *cdelay, const int *ctarget, const bool *ccustom, int interval_ticks, int nroot) {
    clk::time_point base = clk::now();
    for (int i = 0; i < n; i++) w.f[i] << [&] { return st_sleeper(sch, i, delay[i], idk[i], base).start(); };
    for (int c = 0; c < ncanc; c++) w.cf[c] << [&] { return st_canceller(sch, cdelay[c], ctarget[c] >= 0 ? idk[ctarget[c]] : 7, ctarget[c], ccustom[c], base).start(); };
    if (interval_ticks) w.ivf << [&] { return st_interval_user(sch, interval_ticks, 7).start(); };
    for (int i = 0; i < nroot; i++) co_await w.f[i];
}
// second activation: awaits whatever the first one left behind (sleeps still in the heap, possibly already due)
cocls::async<void> st_root2(StWorld &w, int n, int ncanc, int interval_ticks, int nroot) {
    for (int i = nroot; i < n; i++) co_await w.f[i];
    for (int c = 0; c < ncanc; c++) co_await w.cf[c];
    if (interval_ticks) co_await w.ivf;
}
template <typename T> cocls::async<T> st_tail(cocls::scheduler &sch, long delay_ms, bool throws) {
    co_await sch.sleep_for(ms(delay_ms));
    if (throws) throw vs::TestError(4711);
    if constexpr (std::is_void_v<T>) co_return; else co_return T(77);
}
void single_thread_mode() {
    dsim::config().stalls = dsim::flip();
    int n = 1 + dsim::choose(5);
    long delay[8]; int idk[8];
    for (int i = 0; i < n; i++) { delay[i] = 5 * (long)dsim::choose(8); idk[i] = 1 + i; }   // unique ids 1..n (0 delay = already due)
    int ncanc = dsim::choose(3); long cdelay[4]; int ctarget[4]; bool ccustom[4];
    for (int c = 0; c < ncanc; c++) { cdelay[c] = 5 * (long)dsim::choose(8) + 2; ctarget[c] = (int)dsim::choose(n + 1) - 1; ccustom[c] = dsim::flip(); }
    int interval_ticks = dsim::choose(3);
    int nroot = dsim::flip() ? n : 1 + (int)dsim::choose(n);      // how many sleepers the first start() waits for; the rest is left pending when it returns
    bool nested = false;   // recursive start() from a coroutine of the outer start() is not driven (see DESIGN §7 C12)
    dsim::plan_note("single-thread start(): stalls=%d sleepers=", (int)dsim::config().stalls);
    for (int i = 0; i < n; i++) dsim::plan_note("%ld,", delay[i]);
    for (int c = 0; c < ncanc; c++) dsim::plan_note(" cancel@%ld->%d%s", cdelay[c], ctarget[c], ccustom[c] ? "c" : "");
    dsim::plan_note(" interval_ticks=%d nested=%d first_start_awaits=%d", interval_ticks, (int)nested, nroot);
    cocls::scheduler sch;
    StWorld w;
    sch.start(st_root(sch, w, n, delay, idk, ncanc, cdelay, ctarget, ccustom, interval_ticks, nroot).start());
    for (int i = 0; i < nroot; i++) if (!dsim::cell_get(OUTCOME + i)) dsim::fail("C12.lost", "sleep %d never completed although the start() that awaited it returned", i);
    // what the first start() did not wait for is either complete or still pending - never dropped: a second start() completes it
    sch.start(st_root2(w, n, ncanc, interval_ticks, nroot).start());
    for (int i = 0; i < n; i++) if (!dsim::cell_get(OUTCOME + i)) dsim::fail("C12.lost", "sleep %d never completed although start() returned", i);
    // start() hands through what the awaited operation produced: its value, or the exception it ended with (after the sleep inside it)
    int tail_kind = dsim::choose(4);
    dsim::plan_note(" tail=%d", tail_kind);
    clk::time_point t0 = clk::now();
    try {
        if (tail_kind == 1) { long r = sch.start(st_tail<long>(sch, 3, false).start()); if (r != 77) dsim::fail("C12.start_result", "start() returned %ld, the awaited coroutine returned 77", r); }
        else if (tail_kind == 2) { sch.start(st_tail<void>(sch, 3, true).start()); dsim::fail("C12.start_result", "start() returned normally although the awaited coroutine ended with an exception"); }
        else if (tail_kind == 3) { long r = sch.start(st_tail<long>(sch, 3, true).start()); dsim::fail("C12.start_result", "start() returned %ld although the awaited coroutine ended with an exception", r); }
    } catch (const vs::TestError &e) { if (tail_kind < 2 || e.code != 4711) dsim::fail("C12.start_result", "start() threw TestError(%ld)", e.code); }
    if (tail_kind && clk::now() < t0 + ms(3)) dsim::fail("C12.early", "start() returned before the sleep inside the awaited coroutine was due");
}

// ============================================================ (c) thread mode and thread-pool mode
cocls::async<void> mt_coro_sleeper(cocls::scheduler &sch, int i, clk::time_point tp, int idk) {
    try { co_await sch.sleep_until(tp, ident(idk)); sleeper_woke(i, 1); }
    catch (const cocls::await_canceled_exception &) { sleeper_woke(i, 3); }
    catch (const vs::TestError &e) { sleeper_woke(i, 2); }
}
// event-driven sleeper: a callback awaiter on the sleep future. Its handler runs inline in whoever completes the sleep - normally the
// scheduling thread - and re-arms: it asks the same scheduler for a second sleep from inside the completion of the first
struct CbSleeper : cocls::awaiter {
    cocls::scheduler &sch; int i; clk::time_point tp; cocls::future<void> f1, f2; cocls::promise<void> done; int stage = 0;
    CbSleeper(cocls::scheduler &sch, int i, clk::time_point tp) : sch(sch), i(i), tp(tp) { set_resume_fn(&fire); }
    static cocls::suspend_point<void> fire(cocls::awaiter *me, void *) noexcept { return static_cast<CbSleeper *>(me)->step(); }
    static int outcome(cocls::future<void> &f) { try { f.value(); return 1; } catch (const vs::TestError &) { return 2; } catch (const cocls::await_canceled_exception &) { return 3; } }
    void arm() { f1 << [&] { return sch.sleep_until(tp, ident(1 + i)); }; cocls::co_awaiter<cocls::future<void>> aw(f1); if (!aw.subscribe(this)) step().clear(); }
    cocls::suspend_point<void> step() {
        if (stage == 0) {
            stage = 1;
            int o = outcome(f1); sleeper_woke(i, o);
            if (o != 1) return done();
            f2 << [&] { return sch.sleep_until(tp + ms(5)); };
            cocls::co_awaiter<cocls::future<void>> aw(f2); if (aw.subscribe(this)) return {};
        }
        int o2 = outcome(f2);
        if (o2 == 1 && clk::now() < tp + ms(5)) dsim::fail("C12.early", "re-armed sleep of sleeper %d completed before its time point", i);
        if (o2 == 2) dsim::fail("C12.cancel_wrong_target", "re-armed sleep of sleeper %d (no identifier) was cancelled with the canceller's exception", i);
        return done();
    }
};
// interval() consumer in thread / pool mode; the stop token is triggered by another thread (or by the consumer after four ticks)
cocls::async<void> mt_interval_user(cocls::scheduler &sch, std::stop_source &src, long period_ms) {
    auto gen = sch.interval(ms(period_ms), src.get_token());
    long last = dsim::now_ns(); int n = 0;
    for (;;) {
        bool ok = co_await gen.next();
        if (!ok) break;                                 // stop requested, or the scheduler went away
        long now = dsim::now_ns();
        // (with stalls and clock jumps the consumer may be resumed long after the tick was due: only exact runs compare instants)
        if (exact_time() && now - last < period_ms * 1000000L) dsim::fail("C12.early", "interval tick after %ldns, period is %ldms", now - last, period_ms);
        last = now;
        if (++n == 4) src.request_stop();
    }
}
void deadlock_classifier() {
    if (dsim::cell_get(SEQ) == 77) dsim::fail("C12.destructor_hangs", "scheduler destructor requested stop but the scheduling thread never finished (everything is blocked)");
}
void threaded_mode(bool pool_mode) {
    dsim::config().stalls = dsim::flip();
    dsim::on_deadlock(deadlock_classifier);
    int n = dsim::choose(4);                  // 0..3 sleepers (0: create and destroy only)
    long delay[4]; int kind[4];
    for (int i = 0; i < n; i++) { delay[i] = 5 * (long)dsim::choose(6); kind[i] = dsim::choose(3); }
    int ncanc = n ? dsim::choose(3) : 0; int ctarget[3];
    for (int c = 0; c < ncanc; c++) ctarget[c] = dsim::choose(n);
    bool destroy_early = dsim::flip();
    int nworkers = 1 + dsim::choose(2);
    bool with_interval = dsim::choose(3) == 0;
    dsim::plan_note("%s mode: stalls=%d sleepers=", pool_mode ? "pool" : "thread", (int)dsim::config().stalls);
    for (int i = 0; i < n; i++) dsim::plan_note("%ld%s,", delay[i], kind[i] == 1 ? "blk" : kind[i] == 2 ? "cb" : "co");
    for (int c = 0; c < ncanc; c++) dsim::plan_note(" cancel->%d", ctarget[c]);
    dsim::plan_note(" destroy_early=%d workers=%d interval=%d", (int)destroy_early, nworkers, (int)with_interval);
    {
        std::unique_ptr<cocls::thread_pool> pool; std::thread thr;
        std::unique_ptr<cocls::scheduler> sch;
        int how = dsim::choose(3);      // 0 constructor, 1 default-constructed + start(pool / thread), 2 default-constructed + start_thread() (thread mode)
        dsim::plan_note(" start_flavour=%d", how);
        if (pool_mode) { pool = std::make_unique<cocls::thread_pool>(nworkers); if (how == 0) sch = std::make_unique<cocls::scheduler>(*pool); else { sch = std::make_unique<cocls::scheduler>(); sch->start(*pool); } }
        else if (how == 0) sch = std::make_unique<cocls::scheduler>(thr);
        else { sch = std::make_unique<cocls::scheduler>(); if (how == 1) sch->start(thr); else sch->start_thread(); }
        clk::time_point base = clk::now();
        std::vector<std::thread> th;
        for (int i = 0; i < n; i++) th.emplace_back([&, i] {
            clk::time_point tp = base + ms(delay[i]);
            dsim::cell_set(TP + i, virt(tp)); dsim::cell_set(T_CALL + i, dsim::now_ns());
            if (kind[i] == 0) { auto f = mt_coro_sleeper(*sch, i, tp, 1 + i).start(); vs::cell_set_hb(ISSUED + i, 1); f.wait(); }
            else if (kind[i] == 2) { CbSleeper cs(*sch, i, tp); cocls::future<void> fin; cs.done = fin.get_promise(); cs.arm(); vs::cell_set_hb(ISSUED + i, 1); fin.wait(); }
            else {
                auto f = sch->sleep_until(tp, ident(1 + i)); vs::cell_set_hb(ISSUED + i, 1);
                try { f.wait(); sleeper_woke(i, 1); } catch (const cocls::await_canceled_exception &) { sleeper_woke(i, 3); } catch (const vs::TestError &) { sleeper_woke(i, 2); }
            }
        });
        std::stop_source iv_stop;
        std::thread ivt;
        if (with_interval) ivt = std::thread([&] { auto f = mt_interval_user(*sch, iv_stop, 3).start(); vs::cell_set_hb(ISSUED + n, 1); f.wait(); });
        std::thread canc([&] { for (int c = 0; c < ncanc; c++) { bool r = sch->cancel(ident(1 + ctarget[c]), vs::make_err(1)); if (r) dsim::cell_add(CANCEL_TRUE, 1); std::this_thread::yield(); } });
        canc.join();
        // stop requested from this thread, while the generator may be parked in its sleep, parked at its yield, or running. The generator
        // keeps calling into the scheduler until it has seen the stop, so its user is joined before the scheduler may go away
        if (with_interval) { vs::wait_cell_hb(ISSUED + n); iv_stop.request_stop(); ivt.join(); }
        for (int i = 0; i < n; i++) vs::wait_cell_hb(ISSUED + i);      // the threads are done with 'sch' itself (they only wait on their futures now)
        if (!destroy_early) for (auto &t : th) t.join();
        dsim::cell_set(SEQ, 77);
        sch.reset();                                   // must return; pending sleeps end with await_canceled_exception
        dsim::cell_set(SEQ, 78);
        if (destroy_early) for (auto &t : th) t.join();
        if (!pool_mode && thr.joinable()) thr.join();
        pool.reset();
    }
    long by_cancel = 0;
    for (int i = 0; i < n; i++) {
        long o = dsim::cell_get(OUTCOME + i);
        if (!o) dsim::fail("C12.lost", "sleep %d never completed", i);
        if (o == 2) by_cancel++;
        if (o == 3 && !destroy_early) dsim::fail("C12.cancel_wrong_target", "sleep %d ended with await_canceled_exception although nobody destroyed the scheduler", i);
    }
    if (by_cancel != dsim::cell_get(CANCEL_TRUE)) dsim::fail("C12.cancel_wrong_target", "%ld cancel() calls returned true but %ld sleeps ended with the cancel exception", dsim::cell_get(CANCEL_TRUE), by_cancel);
}
} // namespace

void dsim_scenario() {
    switch (dsim::choose(4)) {
    case 0: manual_mode(); break;
    case 1: single_thread_mode(); break;
    case 2: threaded_mode(false); break;
    default: threaded_mode(true); break;
    }
}
