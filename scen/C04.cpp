// C04 — an async coroutine runs once, delivers to its bound party, frees once (DESIGN §7 C04)
#include "common.h"
#include <cocls/async.h>
#include <cocls/future.h>
#include <cocls/thread_pool.h>
#include <cocls/with_allocator.h>
#include <memory>
#include <thread>
#include <vector>

const char *const dsim_property = "C04";
namespace {
enum { NNODES = 0, FR_ALLOC = 1, FR_FREE = 2, NPENDING = 3, RESOLVER_STOP = 4, BODY = 100, DELIVERED = 200, INNER_READY = 300 /* promise registered */, INNER_DONE = 400, BODY_DONE = 500 };
constexpr int MAXN = 40;
enum Start { S_AWAIT = 0, S_START, S_START_PROMISE, S_DETACH, S_FUTURE_CTOR, S_NEVER, S_CLAIMED_PROMISE, S_FUTURE_CORO, S_POOL, S_OWNED_PARTY, S_JOIN, S_NKINDS };
enum Compl { C_VALUE = 0, C_THROW, C_SUSPEND_VALUE, C_SUSPEND_THROW, C_NKINDS };

struct CountingStorage {
    void *alloc(std::size_t sz) { dsim::cell_add(FR_ALLOC, 1); return ::operator new(sz); }
    static void dealloc(void *p, std::size_t) { dsim::cell_add(FR_FREE, 1); ::operator delete(p); }
};
CountingStorage g_storage;

struct DoneMark { int id; ~DoneMark() { dsim::cell_set(BODY_DONE + id, 1); } };
struct Node { int id; int ty; int start; int compl_; int who_resolves; std::vector<int> kids; bool counting_frame; bool as_value = false; bool inline_join = false; };
struct World {
    std::vector<Node> nodes;
    cocls::promise<void> inner[MAXN];         // promises of the futures on which suspended bodies wait
    cocls::thread_pool *pool = nullptr;
    std::unique_ptr<vs::Counted> objs[MAXN];  // what a coroutine with a reference result (ty 3) refers to; owned here, never by a future
};
World *W;
long node_value(int id) { return 1000 + id; }

void body_enter(int id) { long n = dsim::cell_add(BODY + id, 1); if (n != 1) dsim::fail("C04.ran_twice", "body of coroutine %d executed %ld times", id, n); dsim::event("body", id); }
void delivered(int id, int kind, long val) {
    long n = dsim::cell_add(DELIVERED + id, 1);
    if (n != 1) dsim::fail("C04.delivered_twice", "result of coroutine %d delivered %ld times", id, n);
    Node &nd = W->nodes[id];
    bool throws = nd.compl_ == C_THROW || nd.compl_ == C_SUSPEND_THROW;
    if (throws) { if (kind != 2 || val != id) dsim::fail("C04.wrong_result", "coroutine %d throws %d, its bound party received kind %d value %ld", id, id, kind, val); }
    else if (kind != 1 || (nd.ty != 1 && val != node_value(id))) dsim::fail("C04.wrong_result", "coroutine %d returns %ld, its bound party received kind %d value %ld", id, node_value(id), kind, val);
}
template <typename T> long payload(T &x) { if constexpr (std::is_same_v<std::remove_cv_t<T>, vs::Counted>) return x.value(); else return x; }

void resolve_inner(int id) {
    if (dsim::cell_xchg(INNER_DONE + id, 1)) return;
    (void)vs::cell_get_hb(INNER_READY + id);
    W->inner[id]();
}
// suspends the body until somebody resolves inner[id]
cocls::future<void> wait_inner(int id) {
    return [id](cocls::promise<void> p) { W->inner[id] = std::move(p); dsim::cell_add(NPENDING, 1); vs::cell_set_hb(INNER_READY + id, 1); };      // the promise is handed to whoever resolves it: with happens-before
}

template <typename T> cocls::async<T> body(int id, vs::Counted arg);
template <typename T> cocls::with_allocator<CountingStorage, cocls::async<T>> body_counted(CountingStorage &, int id, vs::Counted arg);
template <typename T> cocls::future<T> body_future(int id, vs::Counted arg);
cocls::async<void> run_child(int id);

// the shared body text (macro: coroutine bodies cannot be factored into an ordinary function)
#define NODE_BODY                                                                                         \
    body_enter(id);                                                                                       \
    DoneMark done_mark{id};                                                                               \
    vs::Counted local(arg.value() + 1);                                                                   \
    Node &nd = W->nodes[id];                                                                              \
    for (int k : nd.kids) co_await run_child(k);                                                          \
    if (nd.compl_ == C_SUSPEND_VALUE || nd.compl_ == C_SUSPEND_THROW) co_await wait_inner(id);            \
    if (local.value() != id + 1) dsim::fail("C04.frame_corrupt", "local of coroutine %d damaged", id);    \
    if (nd.compl_ == C_THROW || nd.compl_ == C_SUSPEND_THROW) throw vs::TestError(id);                    \
    if constexpr (std::is_void_v<T>) co_return; else if constexpr (std::is_reference_v<T>) co_return *W->objs[id]; else co_return T(node_value(id));

template <typename T> cocls::async<T> body(int id, vs::Counted arg) { NODE_BODY }
template <typename T> cocls::with_allocator<CountingStorage, cocls::async<T>> body_counted(CountingStorage &, int id, vs::Counted arg) { NODE_BODY }
template <typename T> cocls::future<T> body_future(int id, vs::Counted arg) { NODE_BODY }

template <typename T, typename F> void observe_future(int id, F &f);
// a bound party that nobody but the coroutine's own frame keeps alive: future + callback awaiter in one heap object whose last
// reference is an argument of the coroutine (an "operation" object handed to the coroutine that completes it)
template <typename T> struct Party {
    int id; cocls::future<T> f;
    cocls::suspend_point<void> on_done(cocls::awaiter *) noexcept { observe_future<T>(id, f); return {}; }
    cocls::call_fn_awaiter<Party, &Party::on_done> awt;
    explicit Party(int i) : id(i), awt(this) {}
    ~Party() { if (dsim::cell_get(DELIVERED + id) != 1) dsim::fail("C04.delivery", "the party bound to coroutine %d (kept alive only by that coroutine's frame) was destroyed before the result reached it", id); }
};
template <typename T> cocls::async<T> body_owned(int id, vs::Counted arg, std::shared_ptr<Party<T>> keep) { (void)keep; NODE_BODY }
template <typename T> cocls::async<T> make(int id) {
    if (W->nodes[id].counting_frame) return body_counted<T>(g_storage, id, vs::Counted(id));
    return body<T>(id, vs::Counted(id));
}
template <typename T, typename F> void observe_future(int id, F &f) {
    try {
        if constexpr (std::is_void_v<T>) { f.value(); delivered(id, 1, 0); }
        else {
            if constexpr (std::is_reference_v<T>) if (&f.value() != W->objs[id].get()) dsim::fail("C04.wrong_result", "coroutine %d returns a reference; its bound party received a different object", id);
            delivered(id, 1, payload(f.value()));
        }
    }
    catch (const vs::TestError &e) { delivered(id, 2, e.code); }
    catch (const cocls::await_canceled_exception &) { dsim::fail("C04.wrong_result", "bound future of coroutine %d has no value", id); }
}
// somebody has to complete suspended bodies: the starter does it itself when it is not blocked, else the resolver thread does
void maybe_resolve_here(int id) { Node &nd = W->nodes[id]; if ((nd.compl_ == C_SUSPEND_VALUE || nd.compl_ == C_SUSPEND_THROW) && nd.who_resolves == 0 && dsim::cell_get(INNER_READY + id)) resolve_inner(id); }

template <typename T> cocls::async<void> run_child_t(int id) {
    Node &nd = W->nodes[id];
    switch (nd.start) {
    case S_AWAIT: {
        try { if constexpr (std::is_void_v<T>) { co_await make<T>(id); delivered(id, 1, 0); } else delivered(id, 1, payload(co_await make<T>(id))); }   /* the awaiter temporary owns the result: read it within the full expression */
        catch (const vs::TestError &e) { delivered(id, 2, e.code); }
        break; }
    case S_START: {
        if constexpr (std::is_reference_v<T>) if (nd.as_value) {      // a coroutine handing out a reference behind an interface declared with the value type
            cocls::future<std::remove_reference_t<T>> f; f << [&] { return make<T>(id).start(); };
            maybe_resolve_here(id); co_await f.has_value(); observe_future<T>(id, f); break;
        }
        auto f = make<T>(id).start(); maybe_resolve_here(id); co_await f.has_value(); observe_future<T>(id, f); break; }
    case S_START_PROMISE: {
        cocls::future<T> f; auto p = f.get_promise();
        auto co = make<T>(id);
        bool ok = co.start(p);
        if (!ok) dsim::fail("C04.start_promise", "start(promise) refused a fresh promise");
        if (p) dsim::fail("C04.start_promise", "promise still valid after start(promise)");
        maybe_resolve_here(id); co_await f.has_value(); observe_future<T>(id, f); break; }
    case S_DETACH: { make<T>(id).detach(); maybe_resolve_here(id); break; }        // delivers to nobody; an exception escapes to nobody
    case S_FUTURE_CTOR: {
        if constexpr (std::is_reference_v<T>) if (nd.as_value) {
            cocls::future<std::remove_reference_t<T>> f(make<T>(id));
            maybe_resolve_here(id); co_await f.has_value(); observe_future<T>(id, f); break;
        }
        cocls::future<T> f(make<T>(id)); maybe_resolve_here(id); co_await f.has_value(); observe_future<T>(id, f); break; }
    case S_NEVER: { auto co = make<T>(id); (void)co; break; }                        // destroyed unstarted: never runs, arguments destroyed once
    case S_CLAIMED_PROMISE: {
        cocls::future<T> f; auto p = f.get_promise();
        cocls::promise<T> thief(std::move(p));                                       // the promise is already claimed
        auto co = make<T>(id);
        bool ok = co.start(p);
        if (ok) dsim::fail("C04.start_promise", "start(promise) succeeded on an already claimed promise");
        thief(cocls::drop);
        break; }
    case S_FUTURE_CORO: { cocls::future<T> f = body_future<T>(id, vs::Counted(id)); maybe_resolve_here(id); co_await f.has_value(); observe_future<T>(id, f); break; }
    case S_POOL: { auto f = W->pool->run(make<T>(id)); maybe_resolve_here(id); co_await f.has_value(); observe_future<T>(id, f); break; }
    case S_OWNED_PARTY: {
        auto party = std::make_shared<Party<T>>(id);
        auto p = party->f.get_promise();
        if (!party->f.subscribe(&party->awt)) dsim::fail("C04.harness", "cannot subscribe to a pending future");
        auto co = body_owned<T>(id, vs::Counted(id), std::move(party));     // from here on the frame holds the only reference
        if (!co.start(p)) dsim::fail("C04.start_promise", "start(promise) refused a fresh promise");
        maybe_resolve_here(id); break; }
    default: if (nd.inline_join) {   // S_JOIN from inside the parent coroutine: legal for a child that completes at once - start() runs it nested, join() finds the result ready and never blocks
            try { if constexpr (std::is_void_v<T>) { make<T>(id).join(); delivered(id, 1, 0); } else { auto r = make<T>(id).join(); delivered(id, 1, payload(r)); } }
            catch (const vs::TestError &e) { delivered(id, 2, e.code); }
            break;
        } else {   // S_JOIN: blocking join() on a helper thread (join() is not for coroutines); such children are leaves that complete at once
        std::thread t([id] {
            try { if constexpr (std::is_void_v<T>) { make<T>(id).join(); delivered(id, 1, 0); } else { auto r = make<T>(id).join(); delivered(id, 1, payload(r)); } }
            catch (const vs::TestError &e) { delivered(id, 2, e.code); }
        });
        t.join(); break; }
    }
}
cocls::async<void> run_child(int id) {
    switch (W->nodes[id].ty) { case 0: return run_child_t<long>(id); case 1: return run_child_t<void>(id); case 2: return run_child_t<vs::Counted>(id); default: return run_child_t<vs::Counted &>(id); }
}
void build(World &w, int parent, int depth, int &budget) {
    int nk = depth >= 4 ? 0 : dsim::choose(depth == 0 ? 4 : 3);
    if (depth == 0 && nk == 0) nk = 1;
    for (int k = 0; k < nk && budget > 0; k++) {
        budget--;
        Node n; n.id = (int)w.nodes.size(); n.ty = dsim::choose(4); n.start = dsim::choose(S_NKINDS); n.compl_ = dsim::choose(C_NKINDS); n.who_resolves = dsim::choose(2); n.counting_frame = dsim::choose(4) == 3;
        // a blocked starter cannot resolve: direct co_await and join leave it to the resolver thread; a detached/awaited child whose starter moved on too
        if (n.start == S_AWAIT || n.start == S_JOIN || n.start == S_POOL) n.who_resolves = 1;
        if (n.start == S_FUTURE_CORO) n.counting_frame = false;
        if (n.ty == 3 && n.start == S_JOIN) n.start = S_START;   // async<T&>::join() returns T move-constructed from the referent (it empties the caller's object): a quirk outside the statement, not driven
        if (n.ty == 3) { w.objs[n.id] = std::make_unique<vs::Counted>(node_value(n.id)); if (n.start == S_START || n.start == S_FUTURE_CTOR) n.as_value = dsim::flip(); }
        w.nodes.push_back(n);
        if (parent >= 0) w.nodes[parent].kids.push_back(n.id);
        if (n.start == S_JOIN) { w.nodes.back().compl_ = n.compl_ & 1; w.nodes.back().inline_join = dsim::flip(); continue; }
        if (n.start != S_NEVER && n.start != S_CLAIMED_PROMISE) build(w, n.id, depth + 1, budget);
    }
}
cocls::async<void> chain(int k, int depth, vs::Counted arg) {
    dsim::cell_add(BODY + 0, 1);
    if (k < depth) co_await chain(k + 1, depth, vs::Counted(arg.value() + 1));
    else if (arg.value() != depth) dsim::fail("C04.frame_corrupt", "argument chain damaged");
}

// ---- several parties race for one promise; start(promise) must start its coroutine if and only if it won the claim
cocls::async<long> racer_body(int id, vs::Counted arg) { dsim::cell_add(BODY + id, 1); co_return 100 + id + 0 * arg.value(); }
void race_mode() {
    int n = 2 + dsim::choose(2); int kind[3];
    for (int i = 0; i < n; i++) kind[i] = dsim::choose(3);       // 0 start(promise), 1 promise(value), 2 move the promise away and drop it
    kind[0] = 0;
    dsim::plan_note("race for one promise:"); for (int i = 0; i < n; i++) dsim::plan_note(" %d", kind[i]);
    {
        cocls::future<long> f; cocls::promise<long> p = f.get_promise();
        std::vector<std::thread> th;
        for (int i = 0; i < n; i++) th.emplace_back([&p, i, k = kind[i]] {
            bool won = false;
            if (k == 0) { auto co = racer_body(i, vs::Counted(i)); won = co.start(p); }
            else if (k == 1) won = p(1000L + i);
            else { cocls::promise<long> q(std::move(p)); won = (bool)q; }
            dsim::cell_set(DELIVERED + i, won ? 1 : 0);
        });
        for (auto &t : th) t.join();
        int winners = 0, w = -1;
        for (int i = 0; i < n; i++) {
            long won = dsim::cell_get(DELIVERED + i), ran = dsim::cell_get(BODY + i);
            if (won) { winners++; w = i; }
            if (kind[i] == 0 && ran != won) dsim::fail(won ? "C04.not_run" : "C04.unstarted_ran", "start(promise) of claimant %d returned %ld but its body executed %ld times", i, won, ran);
        }
        if (winners != 1) dsim::fail("C04.start_promise", "%d of %d parties racing for one promise report success", winners, n);
        if (!f.ready()) dsim::fail("C04.delivery", "future not resolved after the race");
        if (kind[w] == 2) { if (f.has_value()) dsim::fail("C04.wrong_result", "promise was dropped by the winner but the future has a value"); }
        else { long v = f.value(); long want = kind[w] == 0 ? 100 + w : 1000 + w; if (v != want) dsim::fail("C04.wrong_result", "winner %d supplies %ld, future holds %ld", w, want, v); }
    }
    vs::Counted::expect_balanced("C04.instances");
}
}

void dsim_scenario() {
    if (dsim::choose(8) == 6) { race_mode(); return; }
    if (dsim::choose(8) == 7) {      // chain shape: nesting depth of co_await
        int depth = 1 + dsim::choose(dsim::tier() ? 200 : 80);
        dsim::plan_note("chain depth=%d", depth);
        chain(0, depth, vs::Counted(0)).join();
        if (dsim::cell_get(BODY + 0) != depth + 1) dsim::fail("C04.ran_twice", "chain of %d coroutines executed %ld bodies", depth + 1, dsim::cell_get(BODY + 0));
        vs::Counted::expect_balanced("C04.instances");
        return;
    }
    World w; W = &w;
    int budget = 12;
    Node root; root.id = 0; root.ty = 1; root.start = S_JOIN; root.compl_ = C_VALUE; root.who_resolves = 1; root.counting_frame = false;
    w.nodes.push_back(root);
    build(w, 0, 0, budget);
    dsim::plan_note("tree:");
    for (auto &n : w.nodes) if (n.id) dsim::plan_note(" %d{T%d s%d c%d r%d%s%s}", n.id, n.ty, n.start, n.compl_, n.who_resolves, n.counting_frame ? " cf" : "", n.as_value ? " as-value" : ""); 
    {
        cocls::thread_pool pool(1 + dsim::choose(2)); w.pool = &pool;
        // resolver thread: completes suspended bodies whose starter does not do it
        std::thread resolver([&] {
            for (;;) {
                bool stop = dsim::cell_get(RESOLVER_STOP);
                for (size_t i = 1; i < w.nodes.size(); i++) if (dsim::cell_get(INNER_READY + (int)i) && !dsim::cell_get(INNER_DONE + (int)i)) resolve_inner((int)i);   // the starter may beat us to it (who_resolves == 0)
                if (stop) break;
                std::this_thread::yield();
            }
        });
        body<void>(0, vs::Counted(0)).join();
        // detached children (and their subtrees) may still be on their way: wait until every started body has finished,
        // completing the suspended ones whose starter was meant to do it
        std::vector<char> runs(w.nodes.size(), 0); runs[0] = 1;
        for (auto &n : w.nodes) if (runs[n.id]) for (int k : n.kids) runs[k] = w.nodes[k].start != S_NEVER && w.nodes[k].start != S_CLAIMED_PROMISE;
        for (;;) {
            bool all = true;
            for (size_t i = 1; i < w.nodes.size(); i++) {
                if (!runs[i] || dsim::cell_get(BODY_DONE + (int)i)) continue;
                all = false;
                if (dsim::cell_get(INNER_READY + (int)i)) resolve_inner((int)i);
            }
            if (all) break;
            std::this_thread::yield();
        }
        dsim::cell_set(RESOLVER_STOP, 1);
        resolver.join();
    }
    // ---- oracles
    std::vector<char> reach(w.nodes.size(), 0); reach[0] = 1;
    for (auto &n : w.nodes) if (reach[n.id]) for (int k : n.kids) reach[k] = 1;
    for (auto &n : w.nodes) {
        if (!n.id) continue;
        bool started = n.start != S_NEVER && n.start != S_CLAIMED_PROMISE;
        long b = dsim::cell_get(BODY + n.id), d = dsim::cell_get(DELIVERED + n.id);
        if (b != (started ? 1 : 0)) dsim::fail(started ? "C04.not_run" : "C04.unstarted_ran", "coroutine %d (start mode %d) executed its body %ld times", n.id, n.start, b);
        bool bound = started && n.start != S_DETACH;
        if (d != (bound ? 1 : 0)) dsim::fail("C04.delivery", "coroutine %d (start mode %d): result delivered %ld times, expected %d", n.id, n.start, d, bound ? 1 : 0);
    }
    for (auto &n : w.nodes) if (n.ty == 3 && n.id) { if (w.objs[n.id]->value() != node_value(n.id)) dsim::fail("C04.wrong_result", "object referred to by coroutine %d was modified", n.id); w.objs[n.id].reset(); }
    if (dsim::cell_get(FR_ALLOC) != dsim::cell_get(FR_FREE)) dsim::fail("C04.frame_balance", "counting storage handed out %ld frames, %ld were returned", dsim::cell_get(FR_ALLOC), dsim::cell_get(FR_FREE));
    vs::Counted::expect_balanced("C04.instances");
    W = nullptr;
}
