// C15 — signal: every waiting listener gets every value; disconnect wakes all (DESIGN §7 C15)
#include "common.h"
#include <cocls/signal.h>
#include <cocls/async.h>
#include <memory>
#include <thread>
#include <vector>

const char *const dsim_property = "C15";
namespace {
enum { EMITTED = 0, NLOG = 100 /* per listener */, ENDED = 120, LEFT = 140, WAITING = 160, CB_CALLS = 180, CB_GONE = 190, CB_BAD = 195, LOG = 1000 /* 64 per listener */ };
constexpr int MAXL = 8;
using Sig = cocls::signal<long>;

void record(int i, long v) { long n = dsim::cell_add(NLOG + i, 1) - 1; if (n < 64) dsim::cell_set(LOG + 64 * i + (int)n, v); dsim::event("got", i, v); }

// a listener that does nothing but re-await; leaves after 'quota' values (quota < 0: stays until disconnected)
cocls::async<void> listener(Sig::emitter em, int i, int quota) {
    for (int got = 0; quota < 0 || got < quota; got++) {
        try { long v = co_await em; record(i, v); }
        catch (const cocls::await_canceled_exception &) { dsim::cell_add(ENDED + i, 1); co_return; }
    }
    dsim::cell_set(LEFT + i, 1);
}
cocls::async<void> hook_listener(int i, Sig::collector *out, bool *have) {
    auto em = Sig::hook_up([&](Sig::collector c) { *out = c; *have = true; });
    for (;;) {
        try { long v = co_await em; record(i, v); }
        catch (const cocls::await_canceled_exception &) { dsim::cell_add(ENDED + i, 1); co_return; }
    }
}
struct CbToken { int c; explicit CbToken(int c) : c(c) {} ~CbToken() { dsim::cell_add(CB_GONE + c, 1); } };

struct Model { bool waiting[MAXL] = {}; long first[MAXL]; int quota[MAXL]; long got[MAXL] = {}; bool exists[MAXL] = {}; };

void check_listener(int i, long from, long upto_inclusive, bool must_be_ended, const char *when) {
    long n = dsim::cell_get(NLOG + i);
    long expect_n = upto_inclusive - from + 1; if (expect_n < 0) expect_n = 0;
    if (n != expect_n) dsim::fail(n < expect_n ? "C15.missed" : "C15.extra", "%s: listener %d waiting since emission %ld received %ld values, %ld were emitted while it waited", when, i, from, n, expect_n);
    for (long k = 0; k < n && k < 64; k++) if (dsim::cell_get(LOG + 64 * i + (int)k) != from + k) dsim::fail("C15.wrong_value", "%s: listener %d received %ld as its value #%ld, emission %ld carried %ld", when, i, dsim::cell_get(LOG + 64 * i + (int)k), k, from + k, from + k);
    if (must_be_ended && dsim::cell_get(ENDED + i) != 1) dsim::fail("C15.disconnect", "%s: listener %d was parked when the last handle went away but saw await_canceled_exception %ld times", when, i, dsim::cell_get(ENDED + i));
}

cocls::async<void> emitter_coro(Sig::collector col, long v) { co_await col(v); }

void single_thread() {
    int nops = 3 + dsim::choose(14);
    auto sig = std::make_unique<Sig>();
    Model m; int nl = 0, ncb = 0; long emitted = 0;
    int cb_quota[2] = {0, 0}; long cb_first[2] = {0, 0}; bool cb_alive[2] = {false, false}; long nested_first = 0;
    dsim::plan_note("single-thread ops:");
    for (int s = 0; s < nops; s++) {
        int op = dsim::choose(8);
        if (op == 0 && nl < MAXL - 1) {                 // a listener arrives
            int q = dsim::choose(3) == 0 ? 1 + (int)dsim::choose(3) : -1;
            m.exists[nl] = true; m.waiting[nl] = true; m.first[nl] = emitted + 1; m.quota[nl] = q;
            listener(sig->get_emitter(), nl, q).detach();
            dsim::plan_note(" L%d(q%d)", nl, q); nl++;
        } else if (op == 1 && ncb < 2) {                // a callback is connected; it stays for cb_quota calls
            int c = ncb++; cb_quota[c] = 1 + (int)dsim::choose(3); cb_first[c] = emitted + 1; cb_alive[c] = true;
            auto tok = std::make_shared<CbToken>(c);
            // callback 0 may, from inside its first call, connect a further callback (index 2) to the same signal: that one is not
            // waiting at that moment, so it sees every LATER value, each once, until the signal goes away
            bool nest = c == 0 && dsim::flip(); if (nest) nested_first = emitted + 2;
            sig->connect([c, tok, q = cb_quota[c], first = emitted + 1, nest, sp = sig.get()](long &v) {
                long n = dsim::cell_add(CB_CALLS + c, 1); if (v != first + n - 1) dsim::cell_set(CB_BAD + c, 1);
                if (nest && n == 1) sp->connect([tok2 = std::make_shared<CbToken>(2), first2 = first + 1](long &v2) { long n2 = dsim::cell_add(CB_CALLS + 2, 1); if (v2 != first2 + n2 - 1) dsim::cell_set(CB_BAD + 2, 1); return true; });
                return n < q; });
            dsim::plan_note(" CB%d(q%d%s)", c, cb_quota[c], nest ? ",nests" : "");
        } else if (op >= 2 && op <= 5) {                // an emission, in one of the calling conventions
            long v = ++emitted; auto col = sig->get_collector();
            int how = dsim::choose(4);
            if (how == 0) col(v);                                   // by value (constructs in place)
            else if (how == 1) { long tmp = v; col(std::move(tmp)); }   // rvalue
            else if (how == 2) { long x = v; col(x); }              // lvalue reference: listeners read the caller's variable
            else emitter_coro(col, v).join();                       // from a coroutine, awaiting the suspend point
            dsim::plan_note(" E%d", how);
            for (int i = 0; i < nl; i++) if (m.waiting[i]) { m.got[i]++; if (m.quota[i] > 0 && m.got[i] >= m.quota[i]) m.waiting[i] = false; }
            for (int c = 0; c < ncb; c++) if (!cb_alive[c]) { if (dsim::cell_get(CB_CALLS + c) != cb_quota[c]) dsim::fail("C15.callback", "callback %d returned false after %d calls but was called %ld times", c, cb_quota[c], dsim::cell_get(CB_CALLS + c)); if (dsim::cell_get(CB_GONE + c) != 1) dsim::fail("C15.callback", "callback %d returned false but was released %ld times", c, dsim::cell_get(CB_GONE + c)); }
            for (int c = 0; c < 2; c++) if (cb_alive[c]) { long n = emitted - cb_first[c] + 1; if (dsim::cell_get(CB_CALLS + c) != n) dsim::fail("C15.callback", "callback %d connected before emission %ld was called %ld times after emission %ld", c, cb_first[c], dsim::cell_get(CB_CALLS + c), emitted); if (n >= cb_quota[c]) cb_alive[c] = false; }
            if (nested_first) { long want = emitted >= nested_first ? emitted - nested_first + 1 : 0; if (dsim::cell_get(CB_CALLS + 2) != want) dsim::fail(dsim::cell_get(CB_CALLS + 2) < want ? "C15.missed" : "C15.callback", "callback connected from inside callback 0 during emission %ld was called %ld times after emission %ld", nested_first - 1, dsim::cell_get(CB_CALLS + 2), emitted); }
            for (int i = 0; i < nl; i++) check_listener(i, m.first[i], m.first[i] + m.got[i] - 1, false, "after emission");
        } else if (op == 6 && nl < MAXL - 1 && dsim::choose(3) == 0) {   // awaiting a disconnected emitter fails at once
            Sig dead; auto em = dead.get_emitter(); { Sig gone = std::move(dead); }
            m.exists[nl] = true; m.waiting[nl] = false; m.first[nl] = emitted + 1; m.quota[nl] = -1;
            listener(em, nl, -1).detach();
            if (dsim::cell_get(ENDED + nl) != 1) dsim::fail("C15.disconnect", "awaiting a disconnected emitter did not fail immediately");
            dsim::plan_note(" dead"); nl++;
        }
    }
    for (int c = 0; c < 3; c++) if (dsim::cell_get(CB_BAD + c)) dsim::fail("C15.wrong_value", "callback %d received a wrong value", c);
    // the last handle goes away: every parked listener ends with await_canceled_exception, callbacks are released
    sig.reset();
    for (int i = 0; i < nl; i++) check_listener(i, m.first[i], m.first[i] + m.got[i] - 1, m.waiting[i], "after disconnect");
    for (int c = 0; c < ncb; c++) if (dsim::cell_get(CB_GONE + c) != 1) dsim::fail("C15.callback", "callback %d released %ld times", c, dsim::cell_get(CB_GONE + c));
    if (nested_first && dsim::cell_get(CB_CALLS + 0) >= 1 && dsim::cell_get(CB_GONE + 2) != 1) dsim::fail("C15.callback", "callback connected from inside a callback released %ld times", dsim::cell_get(CB_GONE + 2));
}
void hook_up_mode() {
    // the listener creates the signal itself on its first await and hands the collector out
    Sig::collector *col = nullptr; std::unique_ptr<Sig::collector> holder; bool have = false;
    Sig::collector slot(nullptr);
    hook_listener(0, &slot, &have).detach();
    if (!have) dsim::fail("C15.hook_up", "hook_up did not hand out a collector on the first await");
    (void)col;
    int n = 1 + dsim::choose(4);
    dsim::plan_note("hook_up emissions=%d", n);
    for (long v = 1; v <= n; v++) slot(v);
    check_listener(0, 1, n, false, "hook_up");
    slot = Sig::collector(nullptr);         // last handle dropped
    check_listener(0, 1, n, true, "hook_up disconnect");
}


// signal<void>: nothing is carried, every waiting listener is woken once per call
cocls::async<void> void_listener(cocls::signal<void>::emitter em, int i) {
    for (;;) { try { co_await em; dsim::cell_add(NLOG + i, 1); } catch (const cocls::await_canceled_exception &) { dsim::cell_add(ENDED + i, 1); co_return; } }
}
void void_signal() {
    int nl = 1 + dsim::choose(5), nem = dsim::choose(5); int join_at[6];
    for (int i = 0; i < nl; i++) join_at[i] = dsim::choose(nem + 1);
    dsim::plan_note("void signal listeners=%d emissions=%d", nl, nem);
    auto sig = std::make_unique<cocls::signal<void>>();
    int calls = 0; sig->connect([&calls]() { calls++; return true; });
    for (int k = 0; k <= nem; k++) {
        for (int i = 0; i < nl; i++) if (join_at[i] == k) void_listener(sig->get_emitter(), i).detach();
        if (k == nem) break;
        sig->get_collector()();
        for (int i = 0; i < nl; i++) { long want = join_at[i] <= k ? k - join_at[i] + 1 : 0; if (dsim::cell_get(NLOG + i) != want) dsim::fail(dsim::cell_get(NLOG + i) < want ? "C15.missed" : "C15.extra", "void signal: listener %d joined before emission %d, woken %ld times after emission %d", i, join_at[i] + 1, dsim::cell_get(NLOG + i), k + 1); }
        if (calls != k + 1) dsim::fail("C15.callback", "void signal: callback called %d times after %d emissions", calls, k + 1);
    }
    sig.reset();
    for (int i = 0; i < nl; i++) if (dsim::cell_get(ENDED + i) != 1) dsim::fail("C15.disconnect", "void signal: listener %d saw await_canceled_exception %ld times at disconnect", i, dsim::cell_get(ENDED + i));
}

void multi_thread() {
    int nl = 1 + dsim::choose(4), nem = 1 + dsim::choose(5);
    int quota[MAXL]; for (int i = 0; i < nl; i++) quota[i] = dsim::choose(3) == 0 ? 1 + (int)dsim::choose(3) : -1;
    bool early_drop = dsim::flip();
    dsim::plan_note("threads listeners=%d emissions=%d early_drop=%d quotas=", nl, nem, (int)early_drop); for (int i = 0; i < nl; i++) dsim::plan_note("%d,", quota[i]);
    auto sig = std::make_unique<Sig>();
    // connected callbacks that stay connected: after every call they put themselves back on the chain, on the collector's thread, while the
    // listener threads push themselves onto the same chain
    int ncb = dsim::choose(3); dsim::plan_note(" callbacks=%d", ncb);
    for (int c = 0; c < ncb; c++) sig->connect([c, tok = std::make_shared<CbToken>(c)](long &v) { long n = dsim::cell_add(CB_CALLS + c, 1); if (v != n) dsim::cell_set(CB_BAD + c, 1); return true; });
    std::vector<std::thread> th;
    for (int i = 0; i < nl; i++) th.emplace_back([&, i, em = sig->get_emitter()] {
        listener(em, i, quota[i]).detach();      // suspends on this thread; from now on it is resumed by the collector thread
        dsim::cell_set(WAITING + i, 1);         // its await_suspend has completed: it is known to be waiting
    });
    long known_from[MAXL]; for (auto &k : known_from) k = 0;
    auto col = sig->get_collector();
    for (long v = 1; v <= nem; v++) {
        for (int i = 0; i < nl; i++) if (!known_from[i] && dsim::cell_get(WAITING + i)) known_from[i] = v;   // sampled before the collector call begins
        dsim::cell_set(EMITTED, v);
        col(v);
        // every listener known to be waiting before the call has this value now (listeners run on this thread)
        for (int i = 0; i < nl; i++) if (known_from[i]) {
            long n = dsim::cell_get(NLOG + i); long want = v - known_from[i] + 1; if (quota[i] > 0 && want > quota[i]) want = quota[i];
            // it may have joined even earlier than we knew: then it has more, but never fewer
            if (n < want) dsim::fail("C15.missed", "listener %d known to wait since emission %ld has %ld values after emission %ld", i, known_from[i], n, v);
        }
    }
    // the last handle may go while listeners on the other threads are still on their way into the emitter (inside await_suspend, or
    // not there yet): each of them must still end exactly once with await_canceled_exception - woken by the dying state or refused at once
    if (!early_drop) for (auto &t : th) t.join();
    { auto drop = std::move(col); }
    sig.reset();
    if (early_drop) for (auto &t : th) t.join();
    for (int c = 0; c < ncb; c++) {
        if (dsim::cell_get(CB_CALLS + c) != nem || dsim::cell_get(CB_BAD + c)) dsim::fail("C15.callback", "connected callback %d was called %ld times for %d emissions (wrong value seen: %ld)", c, dsim::cell_get(CB_CALLS + c), nem, dsim::cell_get(CB_BAD + c));
        if (dsim::cell_get(CB_GONE + c) != 1) dsim::fail("C15.callback", "connected callback %d released %ld times at disconnect", c, dsim::cell_get(CB_GONE + c));
    }
    for (int i = 0; i < nl; i++) {
        long n = dsim::cell_get(NLOG + i);
        for (long k = 1; k < n && k < 64; k++) if (dsim::cell_get(LOG + 64 * i + (int)k) != dsim::cell_get(LOG + 64 * i + (int)k - 1) + 1) dsim::fail("C15.missed", "listener %d received %ld after %ld: a pure re-awaiting listener must see a contiguous run", i, dsim::cell_get(LOG + 64 * i + (int)k), dsim::cell_get(LOG + 64 * i + (int)k - 1));
        if (n && quota[i] < 0 && dsim::cell_get(LOG + 64 * i + (int)(n > 64 ? 63 : n - 1)) != nem) dsim::fail("C15.missed", "listener %d stopped receiving at %ld, last emission was %d", i, dsim::cell_get(LOG + 64 * i + (int)n - 1), nem);
        bool left = quota[i] > 0 && n >= quota[i];
        if (!left && dsim::cell_get(ENDED + i) != 1) dsim::fail("C15.disconnect", "listener %d parked at disconnect saw await_canceled_exception %ld times", i, dsim::cell_get(ENDED + i));
        if (left && dsim::cell_get(ENDED + i)) dsim::fail("C15.disconnect", "listener %d had left but was cancelled", i);
    }
}
}

void dsim_scenario() {
    int mode = dsim::choose(5);
    if (mode == 0 || mode == 3) single_thread(); else if (mode == 1) hook_up_mode(); else if (mode == 4) void_signal(); else multi_thread();
}
